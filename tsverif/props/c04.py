"""C04 -- Brownian samples have exactly the law of Brownian motion (DESIGN.md section C04)."""
import ast
from fractions import Fraction

from .. import astq, nf
from ..errors import AnalysisError
from ..interp import Interp, Intrinsic, Obj, SimRaise
from ..nf import Rat
from . import brownian_kit as bk

BI = bk.BI

EXPLANATION = (
    "Gaussian bookkeeping on canonical forms extracted from the source (ast only). R04.1: the children (W_L, H_L, W_R, "
    "H_R) of a split are linear forms in the parent's (W, H) and the unit normals drawn from the node's seeds; with "
    "Var W = l+r, Var H = (l+r)/12 and independent unit noises, their exact covariance matrix is computed from the "
    "extracted coefficients and must equal diag(l, l/12, r, r/12) identically in l and r (also the no-H arm: Var W_L = "
    "l, Var W_R = r, Cov = 0). Two noises drawn from the same seed are the same atom, so seed reuse shows up as a wrong "
    "covariance. R04.2: the top-level W, H are unit normals scaled by sqrt(t1-t0), sqrt((t1-t0)/12) from distinct "
    "seeds, and a supplied W/H is stored verbatim. R04.3: all seeds consumed by one node / the top level are pairwise "
    "distinct slots of one generate_state call. R04.4: Davie/Foster: conditional mean H(x)W - W(x)H and residual "
    "variance 2 std^2 equal to h^2/12 resp. h^2/20 + (h/5)(H_i^2 + H_j^2). R04.5: every draw has the full sample shape "
    "(Levy noise (*size, size[-1])). Not decided: the joint law over arbitrary interval sets (Levy construction "
    "argument on paper), PRNG quality."
)


def _cov(x, y, var):
    """Covariance of two linear forms given {atom: variance} of independent centred atoms."""
    tot = Rat.const(0)
    for a, v in var.items():
        tot = tot + nf.coefficient_of(x, a) * nf.coefficient_of(y, a) * v
    return tot


def _is_linear_in(x, atoms):
    x = nf.reduce_sqrt(Rat.lift(x))
    for m in x.num.terms:
        deg = sum(e for a, e in m if a in atoms)
        if deg != 1:
            return False
    return not (x.den.atoms() & set(atoms))


def r04_1(ctx):
    rep, model = ctx.rep, ctx.model
    rep.rule("R04.1", "exact covariance of the children of a split == diag(l, l/12, r, r/12)")
    for have_H, halfway in ((True, False), (False, False), (True, True), (False, True)):
        L = bk.eval_split(model, have_H, True, halfway=halfway)
        R = bk.eval_split(model, have_H, False, halfway=halfway)
        fi = L["fi"]
        rep.analysed(fi)
        l, r = L["l"], L["r"]
        vals = {"W_L": L["W_out"], "W_R": R["W_out"]}
        if have_H:
            vals.update({"H_L": L["H_out"], "H_R": R["H_out"]})
        noises = set()
        for v in vals.values():
            noises |= set(bk.noise_atoms(v))
        Wa, Ha = ("t", "W"), ("t", "H")
        var = {Wa: l + r}
        if have_H:
            var[Ha] = (l + r) / 12
        for a in noises:
            var[a] = Rat.const(1)
        lin_ok = all(_is_linear_in(v, set(var)) for v in vals.values())
        tag = ("H" if have_H else "noH") + ("/dyadic" if halfway else "")
        rep.check(lin_ok, "R04.1", astq.loc(fi), f"{fi.key}::R04.1::linear::{tag}",
                  "a child value is not a linear form in the parent's (W, H) and the node's unit normals: it is not "
                  "Gaussian", "children are linear in (W, H, noises)")
        if not lin_ok:
            continue
        expect_noises = 2 if have_H else 1
        rep.check(len(noises) == expect_noises, "R04.1", astq.loc(fi), f"{fi.key}::R04.1::noise-count::{tag}",
                  f"the split uses {len(noises)} distinct unit normal(s) {[nf.show_atom(a) for a in noises]}; "
                  f"{expect_noises} independent one(s) are needed", f"{expect_noises} independent unit normal(s)")
        want = {("W_L", "W_L"): l, ("W_R", "W_R"): r, ("H_L", "H_L"): l / 12, ("H_R", "H_R"): r / 12}
        names = sorted(vals)
        for i, a in enumerate(names):
            for b in names[i:]:
                c = _cov(vals[a], vals[b], var)
                e = want.get((a, b), Rat.const(0))
                rep.check(nf.equal(c, e), "R04.1", astq.loc(fi), f"{fi.key}::R04.1::cov({a},{b})::{tag}",
                          f"Cov({a}, {b}) = `{nf.reduce_sqrt(c)}` but Brownian motion requires `{e}` "
                          f"(W over [s,s+l] ~ N(0,l), H ~ N(0,l/12), all four independent)",
                          f"Cov({a},{b}) == {e}")
    ctx.floor("R04.1", 28)


def eval_init(model, W=None, H=None, halfway=False, dt=None, entropy="symbol", t0=None, t1=None, tol=Fraction(0)):
    fi = model.func(BI, "BrownianInterval.__init__")
    bcls = model.cls(BI, "BrownianInterval")
    T0, T1 = nf.sym("T0", True) if t0 is None else t0, nf.sym("T1", True) if t1 is None else t1
    decisions = {"t0 > t1": False, "tol <= 0.0": False, "tol < 0.0": False, "tol == 0.0": True} if tol == 0 else {}
    hooks = bk.BrownianHooks(decisions)
    it = Interp(model, hooks)
    me = Obj("bm", cls=bcls)
    kwargs = dict(t0=T0, t1=T1, size=bk.SIZE, entropy=nf.sym("ENTROPY", True) if entropy == "symbol" else entropy, tol=tol,
                  pool_size=nf.sym("POOL", True), halfway_tree=halfway, levy_area_approximation="space-time",
                  W=W, H=H, dt=dt)
    it.call_function(fi, [me], kwargs)
    return dict(me=me, hooks=hooks, T0=T0, T1=T1, fi=fi)


def r04_2(ctx):
    rep, model = ctx.rep, ctx.model
    rep.rule("R04.2", "top level: W = N(0,1) sqrt(t1-t0), H = N(0,1) sqrt((t1-t0)/12) from distinct seeds; supplied W/H "
                      "stored verbatim")
    r = eval_init(model)
    fi = r["fi"]
    rep.analysed(fi)
    wh = r["me"].attrs.get("_w_h")
    if not (isinstance(wh, tuple) and len(wh) == 2):
        raise AnalysisError("BrownianInterval.__init__ does not set `_w_h` to a pair", where=astq.loc(fi))
    W, H = wh
    T = r["T1"] - r["T0"]
    nW, nH = bk.noise_atoms(W), bk.noise_atoms(H)
    ok = len(nW) == 1 and len(nH) == 1 and nW[0] != nH[0] \
        and nf.equal(W, Rat.atom(nW[0]) * nf.sqrt_of(T)) and nf.equal(H, Rat.atom(nH[0]) * nf.sqrt_of(T / 12))
    rep.check(ok, "R04.2", astq.loc(fi), f"{fi.key}::R04.2::top-level-scaling",
              f"top-level (W, H) = (`{W}`, `{H}`): must be distinct unit normals scaled by sqrt(t1-t0) and "
              f"sqrt((t1-t0)/12)", "W ~ N(0, t1-t0), H ~ N(0, (t1-t0)/12), independent")
    # with a tolerance the root node covers [round(t0), round(t1)] and every bridge below it is scaled by node lengths: the
    # root's own variance must be the length of the node (concrete end points off the tolerance grid, exact rationals)
    n_q = 0
    for t0c, t1c, tol in ((Fraction(0), Fraction(14, 100), Fraction(1, 10)), (Fraction(1, 3), Fraction(1), Fraction(1, 100)),
                          (Fraction(-7, 1000), Fraction(2, 3), Fraction(1, 1000)), (Fraction(0), Fraction(1), Fraction(1, 10))):
        rq = eval_init(model, t0=t0c, t1=t1c, tol=tol)
        me = rq["me"]
        Wq, Hq = me.attrs["_w_h"]
        a, b = me.attrs.get("_start"), me.attrs.get("_end")
        if not (isinstance(a, Fraction) and isinstance(b, Fraction)):
            raise AnalysisError("root end points of a concrete quantised scenario are not numbers", where=astq.loc(fi))
        nWq, nHq = bk.noise_atoms(Wq), bk.noise_atoms(Hq)
        okq = len(nWq) == 1 and len(nHq) == 1 and nf.equal(Wq * Wq, Rat.atom(nWq[0]) * Rat.atom(nWq[0]) * (b - a)) \
            and nf.equal(Hq * Hq, Rat.atom(nHq[0]) * Rat.atom(nHq[0]) * ((b - a) / 12))
        n_q += 1
        rep.check(okq, "R04.2", astq.loc(fi), f"{fi.key}::R04.2::top-level-scaling::t0={t0c},t1={t1c},tol={tol}",
                  f"BrownianInterval({t0c}, {t1c}, tol={tol}): the root node covers [{a}, {b}] (length {b - a}) but its "
                  f"(W, H) = (`{Wq}`, `{Hq}`): the variances must be the node's length and a twelfth of it, as the "
                  f"bridges below the root assume", "Var W = end - start, Var H = (end - start)/12 of the root node")
    Wu, Hu = nf.sym("W_user"), nf.sym("H_user")
    r2 = eval_init(model, W=Wu, H=Hu)
    wh2 = r2["me"].attrs.get("_w_h")
    ok2 = isinstance(wh2, tuple) and nf.equal(wh2[0], Wu) and nf.equal(wh2[1], Hu)
    rep.check(ok2, "R04.2", astq.loc(fi), f"{fi.key}::R04.2::supplied-verbatim",
              f"a user-supplied end-to-end (W, H) is stored as `{wh2}`: the whole-interval query would not return it",
              "supplied W, H stored verbatim")
    # the top node's value function returns exactly the stored pair
    vf = model.func(BI, "BrownianInterval._increment_and_space_time_levy_area")
    it = Interp(model, bk.BrownianHooks())
    val = it.run_generator_body(vf, [r2["me"]], {})
    ok3 = isinstance(val, tuple) and len(val) == 2 and nf.equal(val[0], Wu) and nf.equal(val[1], Hu)
    rep.check(ok3, "R04.2", astq.loc(vf), f"{vf.key}::R04.2::top-value",
              f"the top node's value is `{val}`, not the stored (W, H)", "top value is the stored pair")
    ctx.floor("R04.2", 7)


def _seed_atoms(x):
    return sorted([a for a in nf.all_atoms(x) if a[0] == "fn" and a[1] == "SEED"], key=repr)


def r04_3(ctx):
    rep, model = ctx.rep, ctx.model
    rep.rule("R04.3", "seed separation: every noise of a node / of the top level has its own slot of one "
                      "generate_state call")
    # top level
    r = eval_init(model)
    fi = r["fi"]
    me = r["me"]
    seeds = [s for _, s, _, _ in r["hooks"].randn_calls] + [me.attrs.get("_top_a_seed")]
    keys = [Rat.lift(s).key() for s in seeds if s is not None]
    ok = len(keys) == 3 and len(set(keys)) == 3 and all(_seed_atoms(s) for s in seeds)
    rep.check(ok, "R04.3", astq.loc(fi), f"{fi.key}::R04.3::top-level",
              f"top-level seeds {[str(s) for s in seeds]} are not three distinct outputs of the seed sequence",
              "three distinct seeds (W, H, Levy)")
    # a split node: evaluate _split_exact and look at the four slots
    se = model.func(BI, "_Interval._split_exact")
    rep.analysed(se)
    node, hooks = eval_split_exact(model, True)
    slots = [node.attrs.get(k) for k in ("_W_seed", "_H_seed", "_left_a_seed", "_right_a_seed")]
    ok2 = all(s is not None and _seed_atoms(s) for s in slots) and len({Rat.lift(s).key() for s in slots}) == 4
    rep.check(ok2, "R04.3", astq.loc(se), f"{se.key}::R04.3::node-slots",
              f"the node's seed slots {[str(s) for s in slots]} are not four distinct outputs of one seed sequence",
              "four distinct seeds per node")
    # which slot feeds which noise: X1 <- _W_seed, X2 <- _H_seed ; Levy noise <- _left/_right_a_seed
    L = bk.eval_split(model, True, True)
    used = [str(s) for _, s, _, _ in L["hooks"].randn_calls]
    ok3 = sorted(set(used)) == ["H_seed", "W_seed"]
    rep.check(ok3, "R04.3", astq.loc(L["fi"]), f"{L['fi'].key}::R04.3::split-noise-seeds",
              f"the split draws its noises from seeds {used}; it must use the node's W seed and H seed, once each",
              "X1 <- _W_seed, X2 <- _H_seed")
    icls = model.cls(BI, "_Interval")
    for is_left, want in ((True, "left_a_seed"), (False, "right_a_seed")):
        parent = Obj("parent", attrs={"_left_a_seed": nf.sym("left_a_seed", True),
                                      "_right_a_seed": nf.sym("right_a_seed", True)})
        top, _ = bk.make_top(model)
        child = Obj("child", cls=icls, attrs={"_parent": parent, "_is_left": is_left, "_top": top})
        hk = bk.BrownianHooks()
        it = Interp(model, hk)
        rl = model.func(BI, "_Interval._randn_levy")
        it.call_function(rl, [child], {})
        got = [str(s) for _, s, _, _ in hk.randn_calls]
        rep.check(got == [want], "R04.3", astq.loc(rl), f"{rl.key}::R04.3::levy-seed::{'left' if is_left else 'right'}",
                  f"the Levy-area noise of a {'left' if is_left else 'right'} child is drawn from {got}, not from its "
                  f"parent's {want}", f"Levy noise <- parent's {want}")
    ctx.floor("R04.3", 5)


def eval_split_exact(model, is_left, halfway=False):
    se = model.func(BI, "_Interval._split_exact")
    icls = model.cls(BI, "_Interval")
    top, _ = bk.make_top(model, halfway=halfway)
    parent = Obj("parent", attrs={"_spawn_key": nf.sym("K", True), "_depth": nf.sym("D", True)})
    node = Obj("node", cls=icls, attrs={"_parent": parent, "_is_left": is_left, "_top": top,
                                        "_start": nf.sym("a", True), "_end": nf.sym("b", True), "_midway": None})
    hooks = bk.BrownianHooks()
    it = Interp(model, hooks)
    it.call_function(se, [node, nf.sym("m", True)], {})
    return node, hooks


def r04_4(ctx):
    rep, model = ctx.rep, ctx.model
    rep.rule("R04.4", "Davie / Foster: conditional mean H(x)W - W(x)H; residual variance 2 std^2 == h^2/12 resp. "
                      "h^2/20 + (h/5)(H_i^2 + H_j^2)")
    for levy in ("davie", "foster"):
        r = bk.eval_davie_foster(model, levy)
        fi = r["fi"]
        rep.analysed(fi)
        A, W, H, h, N = r["A"], r["W"], r["H"], r["h"], r["N"]
        Na = list(N.atoms())[0]
        NTa = ("T", Na)
        mean = nf.substitute(A, {Na: Rat.const(0), NTa: Rat.const(0)})
        want_mean = nf.wrap_axis(H, "col") * nf.wrap_axis(W, "row") - nf.wrap_axis(W, "col") * nf.wrap_axis(H, "row")
        rep.check(nf.equal(mean, want_mean), "R04.4", astq.loc(fi), f"{fi.key}::R04.4::{levy}-mean",
                  f"{levy}: conditional mean of the Levy area is `{mean}`, not H(x)W - W(x)H = `{want_mean}`",
                  "mean == H(x)W - W(x)H")
        cN, cNT = nf.coefficient_of(A, Na), nf.coefficient_of(A, NTa)
        # residual = cN*N + cNT*N^T with N iid unit normals: entry variance cN^2 + cNT^2 (i != j)
        var = cN * cN + cNT * cNT
        if levy == "davie":
            want = h * h / 12
        else:
            Hc, Hr = nf.wrap_axis(H, "col"), nf.wrap_axis(H, "row")
            want = h * h / 20 + (h / 5) * (Hc * Hc + Hr * Hr)
        rep.check(nf.equal(cN, -cNT) and nf.equal(var, want), "R04.4", astq.loc(fi),
                  f"{fi.key}::R04.4::{levy}-variance",
                  f"{levy}: the residual `{nf.reduce_sqrt(cN)}` N + `{nf.reduce_sqrt(cNT)}` N^T has per-entry variance "
                  f"`{nf.reduce_sqrt(var)}`; the scheme prescribes `{want}`",
                  f"residual variance == {want}", facts={"variance": repr(nf.reduce_sqrt(var))})
    ctx.floor("R04.4", 4)


def r04_5(ctx):
    rep, model = ctx.rep, ctx.model
    rep.rule("R04.5", "every draw has the full sample shape; Levy noise has shape (*size, size[-1])")
    L = bk.eval_split(model, True, True)
    for size, seed, node, fi in L["hooks"].randn_calls:
        rep.check(tuple(size) == bk.SIZE, "R04.5", astq.loc(fi, node), f"{fi.key}::R04.5::split-noise::{seed}",
                  f"split noise drawn at shape {size}, not at the sample shape {bk.SIZE}: elements would share noise",
                  "full sample shape")
    r = eval_init(model)
    for size, seed, node, fi in r["hooks"].randn_calls:
        rep.check(tuple(size) == bk.SIZE, "R04.5", astq.loc(fi, node), f"{fi.key}::R04.5::top-noise::{astq.digest(node)}",
                  f"top-level noise drawn at shape {size}, not at the sample shape {bk.SIZE}", "full sample shape")
    icls = model.cls(BI, "_Interval")
    parent = Obj("parent", attrs={"_left_a_seed": nf.sym("left_a_seed", True), "_right_a_seed": nf.sym("r", True)})
    top, _ = bk.make_top(model)
    child = Obj("child", cls=icls, attrs={"_parent": parent, "_is_left": True, "_top": top})
    hk = bk.BrownianHooks()
    it = Interp(model, hk)
    rl = model.func(BI, "_Interval._randn_levy")
    it.call_function(rl, [child], {})
    want = bk.SIZE + bk.SIZE[-1:]
    for size, seed, node, fi in hk.randn_calls:
        rep.check(tuple(size) == want, "R04.5", astq.loc(fi, node), f"{rl.key}::R04.5::levy-noise",
                  f"Levy-area noise drawn at shape {size}, not (*size, size[-1]) = {want}", "shape (*size, size[-1])")
    ctx.floor("R04.5", 5)


def run(ctx):
    ctx.guard(r04_1)
    ctx.guard(r04_2)
    ctx.guard(r04_3)
    ctx.guard(r04_4)
    ctx.guard(r04_5)
    # independence across nodes: seeds are a function of (entropy, tree position) with distinct keys per node
    from . import c06
    ctx.guard(c06.r06_1)


# ------------------------------------------------------------------------------------------------ R04.6
def r04_6(ctx):
    """Conditional mean of the aggregated Levy area.

    Pieces i = 0..n-1 of lengths l_i carry independent (W_i, H_i) with Var W_i = l_i, Var H_i = l_i/12 per component and
    Davie/Foster areas A_i = H_i (x) W_i - W_i (x) H_i + (mean-zero residual uncorrelated with everything).  The value
    BrownianInterval.__call__ returns is a bilinear form M_ij = sum B(x, y) x_i y_j in these variables; the combined
    (W, H) are linear forms (Chen).  For i != j:  E[M_ij K_ij] = sum B(x,y) [Cov(x,H) Cov(y,W) - Cov(x,W) Cov(y,H)]  with
    K = H (x) W - W (x) H, and Var K_ij = 2 Var(H) Var(W).  The prescribed conditional mean H (x) W - W (x) H means the
    regression slope E[M K] / Var K is identically 1 in the piece lengths."""
    rep, model = ctx.rep, ctx.model
    rep.rule("R04.6", "aggregated Levy area: regression slope of A_ij on (H_i W_j - W_i H_j) of the whole query is "
                      "identically 1 in the piece lengths (Gaussian bookkeeping on the aggregation's bilinear form)")
    for n in ((2, 3) if ctx.tier == "quick" else (2, 3, 4)):
        r = bk.eval_call(model, n, True, True)
        fi = r["fi"]
        rep.analysed(fi)
        out = r["out"]
        A = out[2]
        cuts = r["cuts"]
        lens = [cuts[i + 1] - cuts[i] for i in range(n)]
        h = cuts[-1] - cuts[0]
        base = {}
        for i in range(n):
            base[("t", f"W{i}")] = lens[i]
            base[("t", f"H{i}")] = lens[i] / 12
        # substitute the pieces' own areas by their conditional means
        table = {}
        for i in range(n):
            Wi, Hi = nf.sym(f"W{i}"), nf.sym(f"H{i}")
            table[("t", f"A{i}")] = nf.wrap_axis(Hi, "col") * nf.wrap_axis(Wi, "row") - \
                nf.wrap_axis(Wi, "col") * nf.wrap_axis(Hi, "row")
        M = nf.reduce_sqrt(nf.substitute(A, table))
        ref = bk.chen_reference(cuts, n, True, True)
        Wc, Hc = ref["W"], ref["H"]

        def cov(x_atom, lin):
            return nf.coefficient_of(lin, x_atom) * base[x_atom]
        EMK = Rat.const(0)
        ok_form = M.is_poly() or all(nf.is_scalar_atom(a) for a in M.den.atoms())
        for mono, c in M.num.terms.items():
            cols = [a for a, e in mono if a[0] == "col"]
            rows = [a for a, e in mono if a[0] == "row"]
            if len(cols) != 1 or len(rows) != 1 or any(e != 1 for a, e in mono if a[0] in ("col", "row")):
                ok_form = False
                continue
            x, y = cols[0][1], rows[0][1]
            if x not in base or y not in base:
                ok_form = False
                continue
            coef = Rat(nf.Poly({tuple((a, e) for a, e in mono if a[0] not in ("col", "row")): c})) / Rat(M.den)
            EMK = EMK + coef * (cov(x, Hc) * cov(y, Wc) - cov(x, Wc) * cov(y, Hc))
        varK = 2 * (h / 12) * h
        construct = f"{fi.key}::R04.6::{n}-pieces"
        if not ok_form:
            rep.fail("R04.6", astq.loc(fi), construct,
                     f"the aggregated Levy area over {n} pieces is not a bilinear form in the pieces' (W, H): `{str(M)[:200]}`")
            continue
        slope = EMK / varK
        rep.check(nf.equal(slope, Rat.const(1)), "R04.6", astq.loc(fi), construct,
                  f"over {n} stored pieces the returned Levy area regresses on H(x)W - W(x)H of the whole interval with "
                  f"slope `{nf.reduce_sqrt(slope)}` instead of 1: its conditional mean given (W, H) is not the prescribed "
                  f"H(x)W - W(x)H", "slope identically 1")
    ctx.floor("R04.6", 2)


_run_c04 = run


def run(ctx):
    _run_c04(ctx)
    ctx.guard(r04_6)


# ------------------------------------------------------------------------------------------------ R04.7
def r04_7(ctx):
    rep, model = ctx.rep, ctx.model
    rep.rule("R04.7", "aggregated (W, H) over 2 and 3 independent pieces: Var W = h, Var H = h/12, Cov(W, H) = 0, and the "
                      "covariance with each piece's own (W_i, H_i) is the Brownian one")
    for n in ((2, 3) if ctx.tier == "quick" else (2, 3, 4, 5)):
        r = bk.eval_call(model, n, True, False, return_U=True, return_A=False)
        fi = r["fi"]
        W, U = r["out"]
        cuts = r["cuts"]
        lens = [cuts[i + 1] - cuts[i] for i in range(n)]
        h = cuts[-1] - cuts[0]
        H = U / h - W * Fraction(1, 2)
        var = {}
        for i in range(n):
            var[("t", f"W{i}")] = lens[i]
            var[("t", f"H{i}")] = lens[i] / 12
        checks = [("Var W", _cov(W, W, var), h), ("Var H", _cov(H, H, var), h / 12), ("Cov(W,H)", _cov(W, H, var), Rat.const(0))]
        # cross-covariance with the first piece: Cov(W, W_0) = l_0 ; Cov(H(s,t), W_0) from Chen: (t - u1) l_0 / (2 h) ...
        W0 = nf.sym("W0")
        checks.append(("Cov(W, W_0)", _cov(W, W0, var), lens[0]))
        rest = h - lens[0]
        checks.append(("Cov(H, W_0)", _cov(H, W0, var), rest * lens[0] / (2 * h)))
        for name, got, want in checks:
            rep.check(nf.equal(got, want), "R04.7", astq.loc(fi), f"{fi.key}::R04.7::{n}-pieces::{name}",
                      f"over {n} pieces {name} = `{nf.reduce_sqrt(got)}` but Brownian motion requires `{want}`",
                      f"{name} == {want}")
    ctx.floor("R04.7", 10)


_run_c04b = run



# ------------------------------------------------------------------------------------------------ R04.8 / R04.9
def r04_8(ctx):
    """`tol` is documented as the tolerance the Brownian motion is resolved to.  Times are quantised with
    round(x, ndigits), i.e. to a grid of spacing 10**-ndigits; if that spacing exceeds tol, an interval *longer* than tol
    can collapse to zero length (Var W = 0 instead of t - s).  The quantiser built by __init__ is evaluated for several
    tolerances (powers of ten and others) on exact rationals: two times further apart than tol must stay distinct."""
    rep, model = ctx.rep, ctx.model
    rep.rule("R04.8", "the quantisation grid is no coarser than tol: for tol in {1e-1, 3e-3, 1e-3, 5e-4, 2e-6} two times "
                      "more than tol apart are never rounded onto the same grid point")
    fi = model.func(BI, "BrownianInterval.__init__")
    rep.analysed(fi)
    stmt = None
    for st in fi.node.body:
        if isinstance(st, ast.If) and "tol" in {n.id for n in ast.walk(st.test) if isinstance(n, ast.Name)} and \
                any(isinstance(n, ast.Attribute) and isinstance(n.ctx, ast.Store) and n.attr == "_round" for n in ast.walk(st)):
            stmt = st
    if stmt is None:
        raise AnalysisError("BrownianInterval.__init__ no longer builds `self._round` under a test on `tol`", where=astq.loc(fi))
    for tol in (Fraction(1, 10), Fraction(3, 1000), Fraction(1, 1000), Fraction(5, 10000), Fraction(2, 10 ** 6)):
        it = Interp(model, bk.BrownianHooks())
        me = Obj("bm")
        env = {fi.params[0]: me, "tol": tol}
        it.exec_stmt(stmt, env, fi)
        rnd = me.attrs.get("_round")
        if rnd is None:
            raise AnalysisError("`self._round` not set by the tolerance block", where=astq.loc(fi, stmt))
        bad = None
        # a window of a few grid cells: k * tol / 7 offsets around a non-grid base point
        base = Fraction(1210, 10000)
        pts = [base + tol * Fraction(k, 7) for k in range(0, 40)]
        vals = [it.call(rnd, [x], {}) for x in pts]
        for i, x in enumerate(pts):
            for j in range(i + 1, len(pts)):
                if pts[j] - x > tol and nf.equal(vals[i], vals[j]):
                    bad = (x, pts[j], vals[i])
                    break
            if bad:
                break
        rep.check(bad is None, "R04.8", astq.loc(fi, stmt), f"{fi.key}::R04.8::tol={float(tol):g}",
                  f"with tol={float(tol):g} the times {float(bad[0]) if bad else 0:.6g} and {float(bad[1]) if bad else 0:.6g} "
                  f"({float(bad[1] - bad[0]) if bad else 0:.3g} apart, more than tol) are both quantised to "
                  f"{float(bad[2]) if bad and not isinstance(bad[2], Rat) else (bad[2] if bad else '')}: a query over that interval "
                  f"returns identically zero (Var W = 0 instead of t - s) although it is longer than the documented resolution",
                  "grid spacing <= tol")
    ctx.floor("R04.8", 5)


def r04_9(ctx):
    """Every noise tensor is drawn from a torch generator seeded with one word of SeedSequence.generate_state.  With the
    default 32-bit words two of K seeds coincide with probability about K^2 / 2^33: after some 10^5 seeds (a few 10^4
    tree nodes -- an ordinary long solve) two nodes share the *identical* noise tensor, which contradicts "every element
    of a sample driven by its own independent noise".  64-bit words make a coincidence negligible for any feasible
    history."""
    rep, model = ctx.rep, ctx.model
    rep.rule("R04.9", "seed width: every generate_state(...) whose words seed a torch generator asks for 64-bit words")
    n = 0
    for fi in model.funcs_in("torchsde._brownian"):
        if isinstance(fi.node, ast.Lambda):
            continue
        for c in astq.calls(fi):
            if not (isinstance(c.func, ast.Attribute) and c.func.attr == "generate_state"):
                continue
            n += 1
            dt = astq.arg_or_kw(c, 1, "dtype")
            ok = dt is not None and (astq.dotted(dt) or "").split(".")[-1] == "uint64"
            rep.analysed(fi)
            rep.check(ok, "R04.9", astq.loc(fi, c), f"{fi.key}::R04.9::{astq.digest(c)}",
                      f"`{ast.unparse(c)}` yields 32-bit words (numpy's default) that are used as torch seeds: among K seeds "
                      f"about K^2 / 2^33 pairs coincide, so after ~10^5 seeds two tree nodes use the identical noise tensor "
                      f"(disjoint intervals no longer independent)", "dtype=np.uint64")
    if n < 2:
        raise AnalysisError(f"only {n} generate_state call(s) found in the Brownian package")
    # ... and the generator that consumes the seed must use all of it.  Modelling fact about the library underneath (not
    # visible in the repository): torch's CPU generator is a Mersenne twister seeded with the low 32 bits of the seed
    # only (manual_seed(s) and manual_seed(s + (7 << 32)) give the same stream); its CUDA generator (Philox) and numpy's
    # bit generators take 64 bits and more.  So torch.Generator(device).manual_seed(seed) is a 32-bit consumer unless
    # the path to it excludes CPU devices.
    from .c05 import seeded_generator
    m = 0
    for fi in model.funcs_in("torchsde._brownian"):
        if isinstance(fi.node, ast.Lambda):
            continue
        for c in astq.calls(fi):
            sg = seeded_generator(fi, c)
            if sg is None:
                continue
            m += 1
            kind, seed, ctor = sg
            ok = True
            if kind == "torch":
                conds = [(ast.unparse(cd), pol) for cd, pol, _ in astq.path_conditions(fi, c)]
                cpu_excluded = any("'cpu'" in t and (("==" in t and not pol) or ("!=" in t and pol)) for t, pol in conds)
                ok = cpu_excluded
            rep.analysed(fi)
            rep.check(ok, "R04.9", astq.loc(fi, c), f"{fi.key}::R04.9::seed-consumer::{kind}",
                      f"`{ast.unparse(c)[:80]}` may run on a CPU device, where torch's generator keeps only the low 32 bits "
                      f"of the seed: the 64-bit node seeds collide again at the 32-bit birthday bound (248060 seeds of a "
                      f"60000-step solve: 4 pairs of nodes with the identical noise tensor)",
                      "the generator consumes the full seed")
    if m < 1:
        raise AnalysisError("no seeded generator construction found in the Brownian package")
    ctx.floor("R04.9", 3)


def run(ctx):
    _run_c04b(ctx)
    ctx.guard(r04_7)
    ctx.guard(r04_8)
    ctx.guard(r04_9)


_run_c04c = run


def run(ctx):
    _run_c04c(ctx)
    # a node's two seeds are consumed once, by the one split of that node: a routine that splits a node which already has
    # children draws the same two seeds again at another split point, and the values on either side of the two split
    # points are then correlated (leaf typestate of C05; the round-5 C04 seed tested `_midway` by truthiness)
    from . import c05
    ctx.guard(c05.r05_2)


_run_before_replay = run


def run(ctx):
    _run_before_replay(ctx)
    # small-model replay of the real tree: the interplay of cache, search hint, dependency tree, splitting and rounding over
    # whole query histories, on exact rationals with symbolic noise (replay.py)
    from . import replay_rules
    ctx.guard(replay_rules.r04_10)


EXPLANATION = EXPLANATION + " " + (
    "R04.10 (replay.py, see C03): the answers (W_i, U_i) for overlapping, nested and disjoint probe intervals, asked after a history, are linear forms in independent unit normals; their covariance matrix is computed exactly (sum of products of coefficients) and compared entry by entry with Cov(W_i, W_j) = |I_i n I_j|, Cov(U_i, W_j) = int_{I_i} |[s_i, r] n I_j| dr, Cov(U_i, U_j) = int int max(0, min(r, q) - max(s_i, s_j)) dq dr, i.e. with the definition of Brownian motion and U(s,t) = int_s^t (W_r - W_s) dr -- a reference that owes nothing to the code. R04.2 additionally evaluates the constructor on concrete end points off the tolerance grid: the root's variances are those of the node it covers.")


_run_before_r04_11 = run


def run(ctx):
    _run_before_r04_11(ctx)
    from . import replay_rules
    ctx.guard(replay_rules.r04_11)


_run_before_r04_12 = run


def run(ctx):
    _run_before_r04_12(ctx)
    # the law over all distinct intervals of seeded random histories (replay of the real tree)
    from . import replay_rules
    ctx.guard(replay_rules.r04_12)
