"""E7 -- time-stamp analysis of ``BaseSDESolver.integrate`` (shared by C01, C12, C13, C14).

The stepping loop is evaluated abstractly *one iteration at a time* from a generic loop-head state (every
loop-carried variable is a fresh symbol ``name@head``) for every combination of its undecidable branch conditions;
``self.step`` is an opaque function STEP_Y / STEP_E of (ta, tb, y, extra).  Each state value carries the time it is
valid at (``time_of``): the inductive hypothesis stamps ``curr_*@head`` with ``curr_t@head`` and ``prev_*@head`` with
``prev_t@head``; ``STEP_*[ta, tb, ...]`` is stamped ``tb``.  The rules check the inductive step on every path.
"""
import ast
import itertools
from fractions import Fraction

from .. import astq, nf
from ..errors import AnalysisError
from ..interp import Cat, Hooks, Interp, Intrinsic, Obj, Opaque, SimRaise
from ..nf import Rat

BASE_SOLVER = "torchsde/_core/base_solver.py"
# constructors of a preallocated output buffer (the alternative to collecting a list and stacking it)
OUTPUT_BUFFER_CTORS = ("torch.empty", "torch.zeros", "torch.empty_like", "torch.zeros_like")
BUFFER_METHODS = ("new_empty", "new_zeros", "new_ones", "new_full")
CARRIED = ("step_size", "prev_t", "curr_t", "prev_y", "curr_y", "curr_extra", "prev_error_ratio")


class Path:
    def __init__(self, decisions, steps, env, errors, extras):
        self.decisions = decisions   # [(test text, bool)]
        self.steps = steps           # [(ta, tb, y, e, node)]
        self.env = env
        self.errors = errors
        self.extras = extras         # other recorded calls: {'compute_error': [...], 'update_step_size': [...]}

    def label(self):
        return " & ".join(f"{'' if d else 'not '}({t})" for t, d in self.decisions) or "<straight line>"


def min_on_path(a, b, facts):
    """min(a, b) as the arm with these comparison facts knows it: a if the arm established a <= b, b if b <= a, else None."""
    d = Rat.lift(a) - Rat.lift(b)
    for diff, rel in facts:
        if nf.equal(diff, d):
            return a if rel in ("<", "<=") else b
        if nf.equal(diff, Rat.const(0) - d):
            return b if rel in ("<", "<=") else a
    return None


class LoopHooks(Hooks):
    def __init__(self, decisions, ordering=None):
        self.ordering = ordering             # optional: scalar symbol name -> Fraction (one ordering of the times)
        self.decisions = dict(decisions)     # test text -> bool
        self.seen = []                       # [(text, decision)] in order of evaluation
        self.facts = []                      # [(left - right, relation to 0)] of the comparisons decided by case split
        self.unknown = []
        self.calls = {"compute_error": [], "update_step_size": [], "warn": [], "linear_interp": []}
        self.no_grad_depth = 0
        self.no_grad_calls = []

    def decide(self, interp, test, env, fi):
        text = ast.unparse(test)
        try:
            saved = interp.hooks
            interp.hooks = _NoDecide(self)
            try:
                v = interp.eval(test, env, fi)
                r = interp.truth_value(v, test, fi)
            finally:
                interp.hooks = saved
            return r
        except AnalysisError:
            pass
        if self.ordering:
            from ..interp import decide_by_model
            r = decide_by_model(interp, test, env, fi, self.ordering)
            if r is not NotImplemented:
                return r
        r = decide_by_loop_facts(interp, test, env, fi)
        if r is not NotImplemented:
            return r
        if text in self.decisions:
            d = self.decisions[text]
        else:
            self.unknown.append(text)
            d = True
        self.seen.append((text, d))
        if isinstance(test, ast.Compare) and len(test.ops) == 1 and isinstance(test.ops[0], (ast.Lt, ast.LtE, ast.Gt, ast.GtE)):
            # what the chosen arm knows: the sign of left - right (used by rules that compare a value met on this path with a
            # reference written with min / max: `if a > b: a = b` is min(a, b) spelled with a branch)
            try:
                saved = interp.hooks
                interp.hooks = _NoDecide(self)
                try:
                    l, r = interp.eval(test.left, env, fi), interp.eval(test.comparators[0], env, fi)
                finally:
                    interp.hooks = saved
                if isinstance(l, (Rat, Fraction, int)) and isinstance(r, (Rat, Fraction, int)):
                    op = type(test.ops[0])
                    if not d:
                        op = {ast.Lt: ast.GtE, ast.LtE: ast.Gt, ast.Gt: ast.LtE, ast.GtE: ast.Lt}[op]
                    self.facts.append((Rat.lift(l) - Rat.lift(r), {ast.Lt: "<", ast.LtE: "<=", ast.Gt: ">", ast.GtE: ">="}[op]))
            except AnalysisError:
                pass
        return d

    def on_with(self, interp, ctx_text, entering, fi):
        if ctx_text.startswith("torch.no_grad"):
            self.no_grad_depth += 1 if entering else -1

    def tensor_attr(self, interp, recv, name, node, fi):
        if name in ("dtype", "device"):
            return f"{recv}.{name}"
        if name == "shape":
            return (nf.sym(f"{recv}.shape[0]", True), nf.sym(f"{recv}.shape[1]", True))
        return NotImplemented

    def tensor_method(self, interp, recv, name, args, kwargs, node, fi):
        if name in BUFFER_METHODS:
            # y0.new_empty((len(ts), *y0.shape)): an output tensor in the receiver's dtype
            return new_output_buffer(args[:1], dict(kwargs, dtype=kwargs.get("dtype", f"{recv}.dtype")))
        return NotImplemented

    def external_call(self, interp, dotted, args, kwargs, node, fi):
        if dotted in OUTPUT_BUFFER_CTORS:
            return new_output_buffer(args, kwargs)
        if dotted == "torch.stack":
            dim = args[1] if len(args) > 1 else kwargs.get("dim", Fraction(0))
            return Cat("stack", list(args[0]), dim)
        if dotted == "warnings.warn":
            self.calls["warn"].append(node)
            return None
        if dotted in ("torch.round", "round", "torch.floor", "torch.ceil", "math.floor", "math.ceil") and len(args) == 1:
            # rounding of a scalar: exact on a concrete time, an opaque (non-identity) function of a symbolic one
            import math as _m
            x = args[0].const_value() if isinstance(args[0], Rat) else args[0]
            if isinstance(x, (Fraction, int)) and not isinstance(x, bool):
                kind = dotted.split(".")[-1]
                return Fraction(round(x) if kind == "round" else _m.floor(x) if kind == "floor" else _m.ceil(x))
            if isinstance(args[0], Rat):
                return nf.fn(dotted.split(".")[-1], args[0])
        if dotted in ("torch.isclose", "math.isclose") and len(args) >= 2:
            # exact meaning on concrete times: |a - b| <= atol + rtol * |b| (torch) / max(rel * max(|a|, |b|), abs) (math)
            def num(x):
                if isinstance(x, Rat):
                    x = x.const_value()
                return nf.frac(x) if x is not None and not isinstance(x, bool) else None
            a, b = num(args[0]), num(args[1])
            if a is not None and b is not None:
                if dotted == "torch.isclose":
                    rtol = num(kwargs.get("rtol", args[2] if len(args) > 2 else Fraction(1, 10 ** 5)))
                    atol = num(kwargs.get("atol", args[3] if len(args) > 3 else Fraction(1, 10 ** 8)))
                    return abs(a - b) <= atol + rtol * abs(b)
                rel = num(kwargs.get("rel_tol", Fraction(1, 10 ** 9)))
                ab = num(kwargs.get("abs_tol", Fraction(0)))
                return abs(a - b) <= max(rel * max(abs(a), abs(b)), ab)
        return NotImplemented

    def on_call(self, interp, callee, args, kwargs, node, fi):
        from ..interp import Closure
        if isinstance(callee, Closure) and callee.fi is not None:
            nm = callee.fi.name
            if nm == "compute_error":
                self.calls["compute_error"].append((args, kwargs, node, self.no_grad_depth > 0))
                return nf.fn("ERR", *[a for a in args[:2]])
            if nm == "update_step_size":
                self.calls["update_step_size"].append((args, kwargs, node, self.no_grad_depth > 0))
                key = [kwargs.get("error_estimate"), kwargs.get("prev_step_size"), kwargs.get("prev_error_ratio")]
                key = [k if k is not None else "none" for k in key]
                return (nf.Rat.atom(("s", "NEW_STEP[" + "|".join(repr(k) for k in key) + "]")),
                        nf.Rat.atom(("s", "NEW_RATIO[" + "|".join(repr(k) for k in key) + "]")))
        return NotImplemented


# What the symbolic loop scenarios assume of the loop head (real arithmetic): the loop runs while curr_t < out_t <= ts[-1],
# the step sizes are positive.  A test that follows from these facts is not a case split -- e.g. the guard that the trial
# step advances the clock, `next_t > curr_t` with next_t = min(curr_t + step_size, ts[-1]).
def _sign_from_facts(d):
    """+1 / -1 when the facts decide the sign of the scalar `d`, else None.  curr_t@head = out_t - p1, ts[-1] = out_t + p2
    with p1 > 0, p2 >= 0; step_size@head, self.dt, self.dt_min > 0; every `min(...)` is one of its arguments."""
    d = Rat.lift(d)
    mins = [a for a in nf.all_atoms(d) if a[0] == "fn" and a[1] == "min"]
    if mins:
        m = mins[0]
        signs = set()
        args = []

        def grab(a, ar):
            if a == m:
                args.extend(ar)
            return None
        nf.rewrite(Rat.atom(m), grab)
        if not args or len(args) > 4:
            return None
        for choice in args:
            if not isinstance(choice, Rat):
                return None
            d2 = nf.deep_substitute(d, {m: choice})
            if m in nf.all_atoms(d2):
                return None               # the minimum sits where substitution does not reach: undecided, not a loop
            signs.add(_sign_from_facts(d2))
        return signs.pop() if len(signs) == 1 else None
    p1, p2, out_t = nf.sym("@p1", True), nf.sym("@p2", True), nf.sym("out_t", True)
    e = nf.substitute(d, {("s", "curr_t@head"): out_t - p1, ("s", "ts[-1]"): out_t + p2})
    e = nf.reduce_sqrt(e)
    if e.den.terms != Rat.const(1).num.terms:
        return None
    strict = {("s", "@p1"), ("s", "step_size@head"), ("s", "self.dt"), ("s", "self.dt_min")}
    nonneg = strict | {("s", "@p2")}
    pos = neg = False
    some_strict = False
    for mono, c in e.num.terms.items():
        if not mono or any(a not in nonneg for a, _ in mono):
            return None
        if c > 0:
            pos = True
        elif c < 0:
            neg = True
        some_strict = some_strict or all(a in strict for a, _ in mono)
    if pos and not neg and some_strict:
        return 1
    if neg and not pos and some_strict:
        return -1
    return None


def decide_by_loop_facts(interp, test, env, fi):
    neg = False
    while isinstance(test, ast.UnaryOp) and isinstance(test.op, ast.Not):
        test, neg = test.operand, not neg
    if not (isinstance(test, ast.Compare) and len(test.ops) == 1 and isinstance(test.ops[0], (ast.Gt, ast.Lt, ast.GtE, ast.LtE))):
        return NotImplemented
    try:
        saved = interp.hooks
        interp.hooks = _NoDecide(saved)
        try:
            l, r = interp.eval(test.left, env, fi), interp.eval(test.comparators[0], env, fi)
        finally:
            interp.hooks = saved
    except (AnalysisError, SimRaise):
        return NotImplemented
    if not all(isinstance(x, (Rat, Fraction, int)) and not isinstance(x, bool) for x in (l, r)):
        return NotImplemented
    try:
        sgn = _sign_from_facts(Rat.lift(l) - Rat.lift(r))
    except AnalysisError:
        return NotImplemented
    if sgn is None:
        return NotImplemented
    op = test.ops[0]
    val = sgn > 0 if isinstance(op, (ast.Gt, ast.GtE)) else sgn < 0
    return (not val) if neg else val


class _NoDecide(Hooks):
    """Delegate everything except `decide` (used while probing whether a test folds to a constant)."""

    def __init__(self, inner):
        self.inner = inner

    def decide(self, interp, test, env, fi):
        return NotImplemented

    def __getattr__(self, name):
        return getattr(self.inner, name)


# every other hook is the inner one's (the base class defines them all, so __getattr__ alone would never be consulted)
for _name in ("external_call", "tensor_method", "tensor_attr", "truthy", "on_yield", "on_with", "subscript", "on_call",
              "isinstance", "global_name"):
    setattr(_NoDecide, _name, (lambda n: lambda self, *a, **k: getattr(self.inner, n)(*a, **k))(_name))


def new_output_buffer(args=(), kwargs=None, head=None):
    """A preallocated output tensor: writes `buf[k] = v` are logged in order; `dtype` is what it was created with (a
    write converts to it).  `head` seeds the log with the symbol standing for everything written before the loop head."""
    kwargs = kwargs or {}
    sizes = tuple(args)
    if len(sizes) == 1 and isinstance(sizes[0], (tuple, list)):
        sizes = tuple(sizes[0])                 # torch.empty((T, B, d)) and torch.empty(T, B, d) alike
    elif not sizes and isinstance(kwargs.get("size"), (tuple, list)):
        sizes = tuple(kwargs["size"])
    buf = Obj("ys-buffer", attrs={"dtype": kwargs.get("dtype"), "sizes": sizes})
    if head is not None:
        buf.setitem_log.append(("head", head))
    return buf


def is_output_buffer(x):
    return isinstance(x, Obj) and x.name == "ys-buffer"


def output_writes(ys):
    """[(index, value)] in write order, for either style of output collection."""
    if isinstance(ys, list):
        return list(enumerate(ys))
    if is_output_buffer(ys):
        return list(ys.setitem_log)
    return None


def output_style(model):
    """'list' (append + stack) or 'buffer' (preallocated tensor + indexed writes), read off the prologue's evaluation."""
    fi, prologue, f, w, tail, epi = loop_structure(model)
    p, _ = run_body(model, False, prologue, {}, _style="list")
    return "buffer" if is_output_buffer(p.env.get("ys")) else "list"


def _integrate(model):
    fi = model.func(BASE_SOLVER, "BaseSDESolver.integrate")
    if not getattr(fi, "_canonical_locals", False):
        canonicalise_locals(fi)
        fi._canonical_locals = True
    return fi


def canonicalise_locals(fi):
    """The rules below talk about the loop state by role (curr_t, prev_y, step_size, ...).  The roles are inferred from
    what *defines* them -- how the prologue initialises a local, which local the stepping loop tests, which one is handed
    to self.step -- and the function's AST (in memory only) is alpha-renamed to the role names, so that a consistent
    renaming of integrate's local variables changes nothing.  A role that cannot be inferred is left alone (the rules
    then fail with an analysis error, as before)."""
    node = fi.node
    params = [a.arg for a in node.args.args]
    if len(params) < 4:
        return
    p_self, p_y0, p_ts, p_extra0 = params[0], params[1], params[2], params[3]
    body = [s for s in node.body if not (isinstance(s, ast.Expr) and isinstance(s.value, ast.Constant))]
    fors = [s for s in body if isinstance(s, ast.For)]
    if len(fors) != 1:
        return
    f = fors[0]
    prologue = body[:body.index(f)]
    if isinstance(f.target, ast.Name):
        roles = {f.target.id: "out_t"}
    elif isinstance(f.target, ast.Tuple) and len(f.target.elts) == 2 and all(isinstance(e, ast.Name) for e in f.target.elts) \
            and isinstance(f.iter, ast.Call) and isinstance(f.iter.func, ast.Name) and f.iter.func.id == "enumerate":
        # `for i, out_t in enumerate(ts[1:], start=1)`: an index into the output buffer travels with the output time
        roles = {f.target.elts[0].id: "out_index", f.target.elts[1].id: "out_t"}
    else:
        return

    def init_values():
        out = {}
        for st in prologue:
            if isinstance(st, ast.Assign):
                for t in st.targets:
                    if isinstance(t, ast.Name):
                        out.setdefault(t.id, st.value)
                    elif isinstance(t, ast.Tuple) and isinstance(st.value, ast.Tuple) and len(t.elts) == len(st.value.elts):
                        for a, b in zip(t.elts, st.value.elts):
                            if isinstance(a, ast.Name):
                                out.setdefault(a.id, b)
        return out
    inits = init_values()
    # chase one level of local-to-local initialisation (x = y = ts[0] is one Assign; `b = a` is another idiom)
    def root(v, depth=0):
        while isinstance(v, ast.Name) and v.id in inits and depth < 4:
            v = inits[v.id]
            depth += 1
        return v
    by_kind = {}
    for name, v in inits.items():
        v = root(v)
        txt = ast.unparse(v)
        if txt == f"{p_self}.dt":
            by_kind.setdefault("step_size", []).append(name)
        elif txt == p_extra0:
            by_kind.setdefault("curr_extra", []).append(name)
        elif isinstance(v, ast.Constant) and v.value is None:
            by_kind.setdefault("prev_error_ratio", []).append(name)
        elif isinstance(v, ast.List) or (isinstance(v, ast.Call) and ast.unparse(v.func) in OUTPUT_BUFFER_CTORS):
            by_kind.setdefault("ys", []).append(name)
        elif txt == f"{p_ts}[0]":
            by_kind.setdefault("t", []).append(name)
        elif txt == p_y0:
            by_kind.setdefault("y", []).append(name)
    for role in ("step_size", "curr_extra", "prev_error_ratio", "ys"):
        if len(by_kind.get(role, [])) == 1:
            roles[by_kind[role][0]] = role
    whiles = [s for s in f.body if isinstance(s, ast.While)]
    w = whiles[0] if len(whiles) == 1 else None
    if w is not None and isinstance(w.test, ast.Compare) and len(w.test.ops) == 1:
        sides = [w.test.left, w.test.comparators[0]]
        out_names = {k for k, v in roles.items() if v in ("out_t", "out_index")}
        cands = [x.id for x in sides if isinstance(x, ast.Name) and x.id not in out_names]
        ts_like = by_kind.get("t", [])
        if len(cands) == 1 and cands[0] in ts_like and len(ts_like) == 2:
            roles[cands[0]] = "curr_t"
            roles[[x for x in ts_like if x != cands[0]][0]] = "prev_t"
    ys_like = by_kind.get("y", [])
    if w is not None and len(ys_like) == 2:
        passed = set()
        for c in ast.walk(w):
            if isinstance(c, ast.Call) and isinstance(c.func, ast.Attribute) and c.func.attr == "step" \
                    and isinstance(c.func.value, ast.Name) and c.func.value.id == p_self and len(c.args) >= 3 \
                    and isinstance(c.args[2], ast.Name) and c.args[2].id in ys_like:
                passed.add(c.args[2].id)
        if len(passed) == 1:
            cy = passed.pop()
            roles[cy] = "curr_y"
            roles[[x for x in ys_like if x != cy][0]] = "prev_y"
    inv = {v: k for k, v in roles.items()}
    if w is not None and "curr_t" in inv and "step_size" in inv:
        for st in w.body:
            if isinstance(st, ast.Assign) and len(st.targets) == 1 and isinstance(st.targets[0], ast.Name):
                names = {n.id for n in ast.walk(st.value) if isinstance(n, ast.Name)}
                if inv["curr_t"] in names and inv["step_size"] in names and st.targets[0].id not in roles:
                    roles[st.targets[0].id] = "next_t"
                    break
        for st in ast.walk(w):
            if isinstance(st, ast.Assign) and isinstance(st.value, ast.Call) and \
                    ast.unparse(st.value.func).endswith("compute_error") and len(st.targets) == 1 and \
                    isinstance(st.targets[0], ast.Name) and st.targets[0].id not in roles:
                roles[st.targets[0].id] = "error_estimate"
    mapping = {k: v for k, v in roles.items() if k != v}
    if not mapping:
        return
    taken = {n.id for n in ast.walk(node) if isinstance(n, ast.Name)} | set(params)
    for k, v in mapping.items():
        if v in taken and v not in mapping:
            raise AnalysisError(f"integrate: cannot name the local `{k}` by its role `{v}`: the name is used for something else",
                                where=f"{fi.module.relpath}:{node.lineno}")
    for n in ast.walk(node):
        if isinstance(n, ast.Name) and n.id in mapping:
            n.id = mapping[n.id]


def loop_structure(model):
    """(prologue statements, for node, while node, statements after the while inside the for, epilogue)."""
    fi = _integrate(model)
    body = [s for s in fi.node.body if not (isinstance(s, ast.Expr) and isinstance(s.value, ast.Constant))]
    fors = [i for i, s in enumerate(body) if isinstance(s, ast.For)]
    if len(fors) != 1:
        raise AnalysisError("integrate no longer has exactly one top-level for-loop over the output times",
                            where=astq.loc(fi))
    f = body[fors[0]]
    whiles = [i for i, s in enumerate(f.body) if isinstance(s, ast.While)]
    if len(whiles) != 1 or whiles[0] != 0:
        raise AnalysisError("the output-time loop no longer starts with exactly one while-loop (the stepping loop)",
                            where=astq.loc(fi, f))
    return fi, body[:fors[0]], f, f.body[0], f.body[1:], body[fors[0] + 1:]


SDE_METHODS = ("f", "g", "f_and_g", "g_prod", "f_and_g_prod", "prod", "g_prod_and_gdg_prod", "dg_ga_jvp_column_sum",
               "gdg_prod")


def opaque_call(name):
    """An uninterpreted function of its tensor / scalar arguments."""
    return Intrinsic(name, lambda it, args, kwargs, node, fi: nf.fn(
        name, *[a for a in list(args) + [kwargs[k] for k in sorted(kwargs)] if isinstance(a, (Rat, Fraction, int))]))


def make_self(model, adaptive, step_log):
    cls = model.cls(BASE_SOLVER, "BaseSDESolver")

    def step(it, args, kwargs, node, fi):
        if len(args) != 4 or kwargs:
            raise AnalysisError("self.step is expected to be called with four positional arguments",
                                where=astq.loc(fi, node))
        ta, tb, y, e = args
        step_log.append((ta, tb, y, e, node))
        ekey = e if isinstance(e, (Rat,)) else tuple(e) if isinstance(e, (tuple, list)) else e
        return (nf.fn("STEP_Y", ta, tb, y, ekey), nf.fn("STEP_E", ta, tb, y, ekey))
    attrs = {"dt": nf.sym("self.dt", True), "adaptive": adaptive, "rtol": nf.sym("self.rtol", True),
             "atol": nf.sym("self.atol", True), "dt_min": nf.sym("self.dt_min", True),
             "step": Intrinsic("self.step", step),
             # the Brownian motion and the SDE are opaque to the driver: a driver that calls them (dense output, an extra
             # evaluation) gets uninterpreted values, which the rules then meet in the carried state or in the outputs;
             # the declared types are left unknown, so a test on them is a case split of its own
             "bm": opaque_call("BM"), "sde": Obj("sde", attrs=dict({m: opaque_call("SDE." + m) for m in SDE_METHODS},
                                                           noise_type=Opaque("declared noise type"),
                                                           sde_type=Opaque("declared sde type")))}
    from .solverkit import literal_slots
    for k, v in literal_slots(model, cls).items():
        attrs.setdefault(k, v)
    return Obj("solver", cls=cls, attrs=attrs)


def ts_attrs(length):
    """What every abstract time axis answers besides indexing: its length, dtype / device tokens, and the constructors of an
    output tensor in its dtype (`ts.new_empty((len(ts), *y0.shape))`)."""
    attrs = {"__len__": Intrinsic("len", lambda it, a, k, n, f: length), "dtype": "ts.dtype", "device": "ts.device"}
    for m in BUFFER_METHODS:
        attrs[m] = Intrinsic(f"ts.{m}", lambda it, a, k, n, f: new_output_buffer(a[:1], dict(k, dtype=k.get("dtype", "ts.dtype"))))
    return attrs


def make_ts():
    out_t = nf.sym("out_t", True)

    def getitem(it, obj, idx, node, fi):
        if idx == 0:
            return nf.sym("ts[0]", True)
        if idx == -1:
            return nf.sym("ts[-1]", True)
        if isinstance(idx, slice) and idx.start == 1 and idx.stop is None:
            return [out_t]
        raise AnalysisError(f"unexpected index into ts: {idx!r}", where=astq.loc(fi, node))
    return Obj("ts", getitem_hook=getitem, attrs=ts_attrs(nf.sym("len(ts)", True))), out_t


def head_env(self_obj, ts_obj, out_t, style="list"):
    env = {"self": self_obj, "ts": ts_obj, "out_t": out_t, "y0": nf.sym("y0"), "extra0": nf.sym("extra0"),
           "ys": [nf.sym("ys@head")] if style == "list" else new_output_buffer(head=nf.sym("ys@head")),
           "out_index": nf.sym("out_index", True)}
    for name in CARRIED:
        scalar = name in ("step_size", "prev_t", "curr_t", "prev_error_ratio")
        env[name] = nf.sym(f"{name}@head", scalar)
    return env


from ..interp import _Return  # noqa: E402


def run_body(model, adaptive, stmts, decisions, env_override=None, ordering=None, _style=None, self_attrs=None):
    fi = _integrate(model)
    steps = []
    self_obj = make_self(model, adaptive, steps)
    if self_attrs:
        self_obj.attrs.update(self_attrs)
    ts_obj, out_t = make_ts()
    if _style is None:
        if not hasattr(model, "_output_style"):
            model._output_style = output_style(model)
        _style = model._output_style
    env = head_env(self_obj, ts_obj, out_t, _style)
    # any further local the prologue initialises (a step counter, a flag) is loop state of its own: a fresh symbol at the
    # loop head; the rules then see whether it reaches a step argument (R12.2, R13.5)
    try:
        _fi, prologue, _f, _w, _t, _e = loop_structure(model)
        for st in prologue:
            for n in ast.walk(st):
                if isinstance(n, ast.Name) and isinstance(n.ctx, ast.Store) and n.id not in env:
                    env[n.id] = nf.sym(f"{n.id}@head", True)
    except AnalysisError:
        pass
    if env_override:
        env.update(env_override)
    hooks = LoopHooks(decisions, ordering)
    it = Interp(model, hooks)
    errors = []
    try:
        it.exec_block(stmts, env, fi)
    except SimRaise as e:
        errors.append(e)
    except _Return as r:
        env["@return"] = r.value
    path = Path(list(hooks.seen), steps, env, errors, hooks.calls)
    path.facts = list(hooks.facts)
    return path, hooks


def enumerate_paths(model, adaptive, stmts, **kw):
    """All decision combinations of the undecidable tests met in one abstract run of `stmts`."""
    # discover the tests
    tests = []
    frontier = [dict()]
    seen_combos = set()
    paths = []
    while frontier:
        dec = frontier.pop()
        key = tuple(sorted(dec.items()))
        if key in seen_combos:
            continue
        seen_combos.add(key)
        p, hooks = run_body(model, adaptive, stmts, dec, **kw)
        undecided = [t for t in hooks.unknown]
        if undecided:
            t = undecided[0]
            for d in (True, False):
                nd = dict(dec)
                nd[t] = d
                frontier.append(nd)
            continue
        paths.append(p)
        if len(paths) > 64:
            raise AnalysisError("more than 64 paths through one iteration of the stepping loop")
    return paths


def extra_loop_state(model):
    """Locals the prologue initialises besides the known roles: {name: initial value (Fraction) or None}."""
    fi, prologue, f, w, tail, epi = loop_structure(model)
    known = set(CARRIED) | {"ys"}
    out = {}
    for st in prologue:
        if isinstance(st, ast.Assign):
            for t in st.targets:
                if isinstance(t, ast.Name) and t.id not in known:
                    v = st.value
                    out[t.id] = Fraction(v.value) if isinstance(v, ast.Constant) and isinstance(v.value, (int, float)) \
                        and not isinstance(v.value, bool) else None
    return out


def step_counters(model):
    """Extra loop state that counts fixed steps: initialised to a constant c0 and incremented by exactly one on the
    (single) fixed-step path.  For such a counter the inductive hypothesis of the fixed-step grid reads
    curr_t == ts[0] + (counter - c0) * step_size, which is returned as a substitution for `counter@head`."""
    subs = {}
    extras = extra_loop_state(model)
    if not extras:
        return subs
    fi, prologue, f, w, tail, epi = loop_structure(model)
    paths = enumerate_paths(model, False, w.body)
    for name, c0 in extras.items():
        if c0 is None:
            continue
        head = nf.sym(f"{name}@head", True)
        if paths and all(isinstance(p.env.get(name), Rat) and nf.equal(p.env.get(name), head + 1) for p in paths):
            subs[("s", f"{name}@head")] = Rat.const(c0) + (H("curr_t") - nf.sym("ts[0]", True)) / H("step_size")
    return subs



def time_of(v, what):
    """The time a state / extra value is valid at (inductive stamps), or None if it is not a grid state."""
    v = Rat.lift(v) if isinstance(v, (Rat, int, Fraction)) else v
    if isinstance(v, (tuple, list)):
        times = [time_of(x, what) for x in v]
        if times and all(t is not None and nf.equal(t, times[0]) for t in times):
            return times[0]
        return None
    if not isinstance(v, Rat) or not v.is_poly() or len(v.num.terms) != 1:
        return None
    (m, c), = v.num.terms.items()
    if c != 1 or len(m) != 1 or m[0][1] != 1:
        return None
    a = m[0][0]
    if a[0] == "t":
        name = a[1]
        table = {"curr_y@head": "curr_t@head", "curr_extra@head": "curr_t@head", "prev_y@head": "prev_t@head",
                 "y0": "ts[0]", "extra0": "ts[0]"}
        if name in table:
            return nf.sym(table[name], True)
        return None
    if a[0] == "fn" and a[1] in ("STEP_Y", "STEP_E"):
        return nf.key_to_rat(a[3])
    return None


def step_chain(v):
    """Decode y = STEP_Y[a_k, b_k, STEP_Y[..., base, ...]] into ([(a_i, b_i)], base value)."""
    chain = []
    cur = Rat.lift(v)
    while True:
        if not cur.is_poly() or len(cur.num.terms) != 1:
            return chain, cur
        (m, c), = cur.num.terms.items()
        if c != 1 or len(m) != 1 or m[0][1] != 1:
            return chain, cur
        a = m[0][0]
        if a[0] == "fn" and a[1] in ("STEP_Y", "STEP_E"):
            chain.insert(0, (nf.key_to_rat(a[2]), nf.key_to_rat(a[3]), a))
            k = a[4]
            if not (isinstance(k, tuple) and k and k[0] == "rat"):
                return chain, cur
            cur = nf.key_to_rat(k)
            continue
        return chain, cur


def H(name, scalar=True):
    return nf.sym(f"{name}@head", scalar)


def trial_end(p):
    """End of the trial interval of one iteration: min(curr_t + step_size, ts[-1]), or ts[-1] itself on a path where
    the code merged a rounding-size remainder into the last step (R12.2 admits exactly these two); None otherwise."""
    ref_end = nf.fn("min", *sorted([H("curr_t") + H("step_size"), nf.sym("ts[-1]", True)],
                                   key=lambda v: repr(Rat.lift(v).key())))
    t_end = nf.sym("ts[-1]", True)
    ends = [tb for ta, tb, y, e, n in p.steps if nf.equal(ta, H("curr_t"))]
    arm = min_on_path(H("curr_t") + H("step_size"), t_end, getattr(p, "facts", []))     # the clip spelled with a branch
    for cand in (ref_end, arm, t_end):
        if cand is not None and any(nf.equal(tb, cand) for tb in ends):
            return cand
    return None


def _same(a, b):
    if isinstance(a, (tuple, list)) or isinstance(b, (tuple, list)):
        return isinstance(a, (tuple, list)) and isinstance(b, (tuple, list)) and len(a) == len(b) and \
            all(_same(x, y) for x, y in zip(a, b))
    if a is None or b is None:
        return a is b
    return nf.equal(a, b)


def rule_tiling(ctx, rule_id):
    """Every self.step call starts from a state stamped with its start time; the carried triple advances together;
    an advance covers [curr_t@head, new curr_t] by contiguous steps."""
    rep, model = ctx.rep, ctx.model
    rep.rule(rule_id, "one abstract iteration of the stepping loop per branch combination: step inputs are stamped "
                      "with the step's start time; (curr_t, curr_y, curr_extra) advance together over contiguous "
                      "steps or stay unchanged")
    fi, prologue, for_node, while_node, tail, epilogue = loop_structure(model)
    rep.analysed(fi)
    n = 0
    for adaptive in (False, True):
        for p in enumerate_paths(model, adaptive, while_node.body):
            base = f"{fi.key}::{rule_id}::{'adaptive' if adaptive else 'fixed'}::{p.label()}"
            if p.errors:
                continue
            for ta, tb, y, e, node in p.steps:
                n += 1
                ty, te = time_of(y, "state"), time_of(e, "extra")
                ok = ty is not None and nf.equal(ty, ta) and te is not None and nf.equal(te, ta)
                rep.check(ok, rule_id, astq.loc(fi, node), f"{base}::step::{astq.digest(node)}",
                          f"`{ast.unparse(node)}` on path [{p.label()}] steps from time `{ta}` but its state argument is "
                          f"valid at `{ty}` and its extra state at `{te}`: steps are not chained on one trajectory",
                          f"state and extra are stamped with the start time {ta}")
            ct, cy, ce = p.env["curr_t"], p.env["curr_y"], p.env["curr_extra"]
            unchanged = nf.equal(ct, H("curr_t")) and _same(cy, H("curr_y", False)) and \
                _same(ce, H("curr_extra", False))
            if unchanged:
                rep.ok(rule_id, astq.loc(fi, while_node), f"{base}::carried", "carried state unchanged (rejected trial)")
                continue
            chain, basev = step_chain(cy)
            ok = bool(chain) and _same(basev, H("curr_y", False)) and nf.equal(chain[0][0], H("curr_t")) \
                and all(nf.equal(chain[i][1], chain[i + 1][0]) for i in range(len(chain) - 1)) \
                and nf.equal(chain[-1][1], ct)
            tce = time_of(ce, "extra")
            ok = ok and tce is not None and nf.equal(tce, ct)
            rep.check(ok, rule_id, astq.loc(fi, while_node), f"{base}::carried",
                      f"on path [{p.label()}] the loop carries curr_t=`{ct}`, curr_y=`{cy}`, curr_extra=`{ce}`: the "
                      f"state is not the result of contiguous steps from (curr_t, curr_y) ending at the new curr_t",
                      f"advance over {len(chain)} contiguous step(s) ending at the new curr_t")
    if n < 4:
        raise AnalysisError(f"{rule_id}: only {n} self.step call(s) found on the paths of the stepping loop")
    ctx.floor(rule_id, 6)


def rule_last_steps(ctx, rule_id, drift=True):
    """Exact-arithmetic model of one iteration of the stepping loop near the end of the horizon.  The grid is accumulated
    in floating point, so curr_t can sit a rounding error `delta` away from ts[0] + k dt.  In the model (dt = 1/10,
    ts[-1] = 8/10, exact rationals) the iteration starting one step (plus or minus delta) before ts[-1] must end exactly
    at ts[-1]: a remainder of rounding-error size must not become a step of its own (a reversible-Heun step of length
    ~0 is not the identity: it reflects z about y, and the reversed solve has its remainder at the other end).  A genuine
    remainder (dt/2, dt/10) must stay a clipped step of its own (property C12: last step clipped to ts[-1])."""
    rep, model = ctx.rep, ctx.model
    rep.rule(rule_id, "model of the last steps in exact rationals (dt = 1/10, ts[-1] = 8/10): "
                      + ("from curr_t = ts[-1] - dt -/+ delta (delta = dt * 1e-9 .. 1e-15, the accumulated rounding error of "
                         "the grid) the step ends exactly at ts[-1] -- no step of rounding-error length is left over; "
                         if drift else "")
                      + "a genuine remainder (dt/2, dt/10) stays a clipped step of its own; an exact grid ends at ts[-1]")
    fi, prologue, for_node, while_node, tail, epilogue = loop_structure(model)
    rep.analysed(fi)
    _last_steps_model(ctx, rule_id, drift, Fraction(0))
    # the same situations far from the origin of time: what counts as a rounding-size remainder is relative to the step,
    # never to |t| (a tolerance such as isclose's 1e-5 |t| exceeds the whole step once |t| / dt > 1e5)
    _last_steps_model(ctx, rule_id, drift, Fraction(2 ** 20))
    ctx.floor(rule_id, 36 if drift else 14)


def _last_steps_model(ctx, rule_id, drift, offset):
    rep, model = ctx.rep, ctx.model
    fi, prologue, for_node, while_node, tail, epilogue = loop_structure(model)
    dt, T = Fraction(1, 10), offset + Fraction(8, 10)
    far = f" (times shifted by {offset})" if offset else ""
    cases = []
    for k in ((9, 12, 15) if drift else ()):
        d = dt / Fraction(10) ** k
        cases.append((f"drift -dt*1e-{k}", T - dt - d, T, f"the remainder dt*1e-{k} is accumulated rounding error"))
        cases.append((f"drift +dt*1e-{k}", T - dt + d, T, "the step is clipped to ts[-1]"))
    cases.append(("remainder dt/2", T - dt - dt / 2, T - dt / 2, "a genuine remainder is a clipped step of its own"))
    cases.append(("remainder dt/10", T - dt - dt / 10, T - dt / 10, "a genuine remainder is a clipped step of its own"))
    cases.append(("exact", T - dt, T, "exact grid"))
    cases = [c + (dt,) for c in cases]
    # adaptive stepping near the end with a controller step far below the nominal dt: "rounding-size" is relative to the
    # step actually being taken, so a remainder of two such steps is a genuine remainder
    small = dt / 10 ** 4
    adaptive_cases = [("adaptive step dt/1e4, three steps from the end", T - 3 * small, T - 2 * small,
                       "the trial step is the controller's step size, not stretched to ts[-1]", small)]
    if drift:
        adaptive_cases.append(("adaptive step dt/1e4, remainder 1e-9 of it", T - small - small / 10 ** 9, T,
                               "the remainder is accumulated rounding error", small))
    for adaptive in (False, True):
        for name, start, want_end, why, ss in cases + (adaptive_cases if adaptive else []):
            steps = []
            self_obj = make_self(model, adaptive, steps)
            self_obj.attrs["dt"] = dt
            self_obj.attrs["dt_min"] = dt / 10 ** 6

            # ts[0] lies a whole number of steps before the start (up to the drift of the case), so that an indexed grid
            # ts[0] + k * step and an accumulated one describe the same situation
            k_steps = 6
            nominal = start if name.startswith(("remainder", "exact", "adaptive step dt/1e4, three")) else T - ss
            ts0 = nominal - k_steps * ss

            def getitem(it, obj, idx, node, f2, T=T, ts0=ts0):
                if idx == 0:
                    return ts0
                if idx == -1:
                    return T
                raise AnalysisError(f"unexpected index into ts: {idx!r}", where=astq.loc(f2, node))
            env = head_env(self_obj, Obj("ts", getitem_hook=getitem), T)
            env.update({"curr_t": start, "prev_t": start - ss, "step_size": ss})
            # a step counter (indexed grid) has no drift by construction: it holds the number of whole steps taken so far
            for xname, c0 in extra_loop_state(model).items():
                if c0 is not None:
                    env[xname] = c0 + k_steps
            hooks = LoopHooks({})
            it = Interp(model, hooks)
            construct = f"{fi.key}::{rule_id}::{'adaptive' if adaptive else 'fixed'}::{name}{far}"
            try:
                it.exec_block(while_node.body, env, fi)
            except Exception as e:          # SimRaise / AnalysisError: the model could not be evaluated
                raise AnalysisError(f"{rule_id} model ({name}): {e}", where=astq.loc(fi, while_node))
            firsts = [tb for ta, tb, y, e, node in steps if isinstance(ta, Fraction) and ta == start]
            ends = [tb for tb in firsts if isinstance(tb, Fraction)]
            if not ends:
                raise AnalysisError(f"{rule_id} model ({name}): no step starts at the loop-head time", where=astq.loc(fi, while_node))
            end = max(ends)
            rep.check(end == want_end, rule_id, astq.loc(fi, while_node), construct,
                      f"model dt=1/10, ts[-1]={T}, curr_t = ts[-1] - {float(T - start):.17g} ({name}{far}): the step ends at ts[-1] - "
                      f"{float(T - end):.3g} instead of ts[-1] - {float(T - want_end):.3g} ({why}); with floating-point "
                      f"accumulation (e.g. ts=[0, 0.8], dt=0.1) the solver then takes an extra step of rounding-error length, "
                      f"which reversible Heun does not undo (forward/backward grids differ): reconstruction error ~5e-3, "
                      f"adjoint gradients off by ~1e-2", why)




# ------------------------------------------------------------------------------------------------ progress of the clock
class AbsorbingTime:
    """A time so large, in its dtype, that adding a step size returns the same number (t + h == t: float32 times at
    t >= 2^15 with h = 1e-3).  Differences and comparisons are those of the underlying value."""

    def __init__(self, value, name=None):
        self.value, self.name = Fraction(value), name or f"t={value}"

    def sim_key(self):
        return self.value

    def sim_binop(self, op, l, r):
        if isinstance(op, ast.Add):
            return l if isinstance(l, AbsorbingTime) else r                  # the step is absorbed
        if isinstance(op, ast.Sub):
            a = l.value if isinstance(l, AbsorbingTime) else l
            b = r.value if isinstance(r, AbsorbingTime) else r
            if isinstance(l, AbsorbingTime) and isinstance(r, AbsorbingTime):
                return a - b
            return l if isinstance(l, AbsorbingTime) else NotImplemented     # t - h == t as well
        if isinstance(op, ast.Mult):
            return l if isinstance(l, AbsorbingTime) else r if isinstance(r, AbsorbingTime) else NotImplemented
        return NotImplemented

    def sim_compare(self, op, l, r):
        a = l.value if isinstance(l, AbsorbingTime) else (nf.frac(l) if not isinstance(l, Rat) else l.const_value())
        b = r.value if isinstance(r, AbsorbingTime) else (nf.frac(r) if not isinstance(r, Rat) else r.const_value())
        if a is None or b is None:
            return NotImplemented
        table = {ast.Lt: a < b, ast.LtE: a <= b, ast.Gt: a > b, ast.GtE: a >= b, ast.Eq: a == b, ast.NotEq: a != b}
        return table.get(type(op), NotImplemented)

    def __repr__(self):
        return self.name


def rule_clock_progress(ctx, rule_id):
    """Every pass of the stepping loop advances the clock or raises.  The loop runs `while curr_t < out_t`; a pass whose
    trial end is not later than curr_t leaves the fixed-step arm exactly where it was, for ever (and the adaptive arm
    takes zero-length trials whose error estimate is 0, so it also never moves).  In floating point that is what
    happens when the step size is below the resolution of the times: curr_t + step_size == curr_t.  One pass is evaluated
    with such an absorbing clock; it must end in an explicit error."""
    rep, model = ctx.rep, ctx.model
    rep.rule(rule_id, "a pass of the stepping loop whose trial step does not advance the clock (t + h == t in the dtype of "
                      "ts) ends in an explicit error instead of repeating itself for ever")
    fi, prologue, for_node, while_node, tail, epilogue = loop_structure(model)
    rep.analysed(fi)
    for adaptive in (False, True):
        t_now, t_end = AbsorbingTime(40000, "curr_t"), AbsorbingTime(40001, "ts[-1]")
        steps = []

        def getitem(it, obj, idx, node, fi2):
            if idx == 0:
                return t_now
            if idx == -1:
                return t_end
            raise AnalysisError(f"unexpected index into ts: {idx!r}", where=astq.loc(fi2, node))
        ts_obj = Obj("ts", getitem_hook=getitem, attrs=ts_attrs(Fraction(2)))
        self_obj = make_self(model, adaptive, steps)
        self_obj.attrs["dt"], self_obj.attrs["dt_min"] = Fraction(1, 1000), Fraction(1, 10 ** 5)

        def step(it, args, kwargs, node, fi2):
            steps.append(tuple(args))
            return (nf.sym(f"y{len(steps)}"), nf.sym(f"extra{len(steps)}"))
        self_obj.attrs["step"] = Intrinsic("self.step", step)
        env = {"self": self_obj, "ts": ts_obj, "out_t": t_end, "curr_t": t_now, "prev_t": t_now,
               "step_size": Fraction(1, 1000), "prev_error_ratio": None}

        class H(LoopHooks):
            def on_call(self, interp, callee, args, kwargs, node, fi2):
                from ..interp import Closure
                if isinstance(callee, Closure) and callee.fi is not None and callee.fi.name == "compute_error":
                    return Fraction(0)                 # a zero-length trial: full step and half steps coincide
                if isinstance(callee, Closure) and callee.fi is not None and callee.fi.name == "update_step_size":
                    return (Fraction(1, 1000), Fraction(1))
                return LoopHooks.on_call(self, interp, callee, args, kwargs, node, fi2)
        path, hooks = run_body(model, adaptive, list(while_node.body), {}, env_override=env)
        # run_body builds its own hooks; evaluate again with the scenario's hooks when the adaptive arm needs them
        if adaptive:
            it = Interp(model, H({}))
            e2 = head_env(self_obj, ts_obj, t_end)
            e2.update(env)
            errs = []
            try:
                it.exec_block(list(while_node.body), e2, fi)
            except SimRaise as e:
                errs.append(e)
            after, errors = e2.get("curr_t"), errs
        else:
            after, errors = path.env.get("curr_t"), path.errors
        advanced = isinstance(after, AbsorbingTime) and after.value > t_now.value or \
            (not isinstance(after, AbsorbingTime) and after is not t_now)
        ok = bool(errors) or advanced
        arm = "adaptive" if adaptive else "fixed"
        rep.check(ok, rule_id, astq.loc(fi, while_node), f"{fi.key}::{rule_id}::{arm}",
                  f"{arm} steps, a clock that absorbs the step size (curr_t + step_size == curr_t, e.g. float32 ts = [40000, "
                  f"40000.5] with dt = 1e-3): the pass takes the trial step [{steps[0][0] if steps else '?'}, "
                  f"{steps[0][1] if steps else '?'}] and ends with curr_t unchanged and no error, so `while curr_t < out_t` "
                  f"repeats it for ever (sdeint never returns)", "explicit error")
    ctx.floor(rule_id, 2)
