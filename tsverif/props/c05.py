"""C05 -- repeated queries return bit-identical values whatever happened in between (DESIGN.md section C05)."""
import ast

from .. import astq, nf
from ..errors import AnalysisError
from ..model import own_nodes, RepoModel
from ..callgraph import CallGraph
from . import brownian_kit as bk

DERIVED = "torchsde/_brownian/derived.py"
BI = bk.BI
PKG = "torchsde._brownian"

EXPLANATION = (
    "Effect analysis of torchsde/_brownian (ast only). R05.1: slots are classified from the tree itself into "
    "history slots (stored outside constructors / the split routine) and value slots; every store to a value slot is in "
    "__init__, the split routine or _set_spawn_key_and_depth. R05.2 (leaf typestate): a forward must-analysis of "
    "`leaf(x)` facts shows every call of a routine that splits its receiver is made on a leaf (self under `_midway is "
    "None`, or a child created by a split in the same function), so each node's seeds and children are written once. "
    "R05.3: the call-graph closure of the value functions reads no history slot, no module-level mutable and calls "
    "nothing outside the closure but torch/math. R05.4: every random draw in the package passes a generator seeded "
    "from the function's seed parameter (one tabled exception: the entropy default). R05.5: no in-place operation "
    "(augmented assignment, trailing-underscore method, out=) on a tensor that may alias the cache, the stored top "
    "value or a Brownian query result, in the package and in the solver steps. R05.6: the memo cache is read and "
    "written under the key `self` of the computing node, stores the computed pair unchanged, and nodes define neither "
    "__eq__ nor __hash__. R03.8 (shared with C03): one activation of the tree search for every ordering of the query end "
    "points relative to a node does what an ordered contiguous cover requires and depends on (node, ta, tb) only, which "
    "is the inductive step of 'the decomposition does not depend on where the search starts'; the induction itself is "
    "on paper."
)

CTOR_NAMES = ("__init__",)
RNG_FUNCS = ("torch.randn", "torch.rand", "torch.normal", "torch.randn_like", "torch.rand_like", "torch.randint",
             "torch.bernoulli", "torch.poisson", "torch.multinomial", "torch.empty")


def _interval_family(model):
    base = model.cls(BI, "_Interval")
    return base, model.subclasses(base)


def _split_routines(model, cg):
    """Methods of the node classes from which stores to `_midway` are reachable through calls on self: the split
    routine and its helpers."""
    base, fam = _interval_family(model)
    writers = set()
    for c in fam:
        for m in c.methods.values():
            if m.name in CTOR_NAMES:
                continue
            for n in own_nodes(m.node):
                if isinstance(n, ast.Attribute) and isinstance(n.ctx, ast.Store) and n.attr == "_midway":
                    writers.add(m.key)
    if not writers:
        raise AnalysisError("no method outside __init__ stores `_midway`: the split routine vanished", where=BI)
    # helpers: methods called on self from a writer
    out = set(writers)
    for e in cg.edges:
        if e.src.key in writers and e.kind in ("direct",) and e.dst.cls is not None and e.dst.cls in fam \
                and isinstance(e.node, ast.Call) and isinstance(e.node.func, ast.Attribute) \
                and isinstance(e.node.func.value, ast.Name) and e.node.func.value.id == e.src.params[0] \
                and e.dst.name not in CTOR_NAMES:
            out.add(e.dst.key)
    return writers, out


def slot_classes(model, cg):
    """(value slots, history slots, allowed writer keys)"""
    base, fam = _interval_family(model)
    writers, split_helpers = _split_routines(model, cg)
    allowed = set(split_helpers)
    for c in fam:
        for m in c.methods.values():
            if m.name in CTOR_NAMES:
                allowed.add(m.key)
    all_slots = set()
    for c in fam:
        all_slots |= set(c.slots or ())
    history = set()
    for f in model.functions.values():
        if isinstance(f.node, ast.Lambda) or f.key in allowed:
            continue
        for n in own_nodes(f.node):
            if isinstance(n, ast.Attribute) and isinstance(n.ctx, (ast.Store, ast.Del)) and n.attr in all_slots:
                history.add(n.attr)
    return all_slots - history, history, allowed


def value_closure(model, cg):
    """Call-graph closure of the value computation of a node (everything _increment_and_levy_area may run)."""
    base, fam = _interval_family(model)
    roots = []
    for c in fam:
        m = c.methods.get("_increment_and_levy_area")
        if m is not None:
            roots.append(m)
    if not roots:
        raise AnalysisError("_increment_and_levy_area vanished", where=BI)
    return cg.reachable(roots, kinds=("direct", "byname", "slot", "callback", "gen-create", "trampoline"))


def r05_1(ctx):
    rep, model = ctx.rep, ctx.model
    rep.rule("R05.1", "value slots of a node are stored only by construction and by the split routine")
    cg = ctx.callgraph()
    value_slots, history, allowed = slot_classes(model, cg)
    rep.extra["value_slots"] = sorted(value_slots)
    rep.extra["history_slots"] = sorted(history)
    need_value = {"_start", "_end", "_parent", "_is_left", "_midway", "_W_seed", "_H_seed", "_left_child",
                  "_right_child", "_spawn_key", "_depth", "_entropy", "_size", "_w_h", "_top_a_seed", "_pool_size",
                  "_levy_area_approximation", "_have_H", "_have_A", "_round", "_left_a_seed", "_right_a_seed"}
    bad = sorted(need_value & history)
    for s in sorted(need_value):
        fns = []
        for f in model.functions.values():
            if isinstance(f.node, ast.Lambda) or f.key in allowed:
                continue
            for n in own_nodes(f.node):
                if isinstance(n, ast.Attribute) and isinstance(n.ctx, (ast.Store, ast.Del)) and n.attr == s:
                    fns.append((f, n))
        construct = f"{BI}::R05.1::{s}"
        if fns:
            f, n = fns[0]
            rep.fail("R05.1", astq.loc(f, n), construct,
                     f"slot `{s}`, which determines returned values, is stored in {f.qualname} "
                     f"(`{ast.unparse(astq.stmt_of(f, n))[:70]}`), outside construction and the split routine: a later "
                     f"query could observe a different value for the same interval")
        else:
            rep.ok("R05.1", BI, construct, "stored only by constructors / the split routine")
    ctx.floor("R05.1", 20)


# ------------------------------------------------------------------------------------------------ R05.2 leaf typestate
class LeafFacts:
    """Forward must-analysis of facts leaf(<expr text>) over one function body."""

    def __init__(self, fi, requires_leaf, sname):
        self.fi = fi
        self.requires = requires_leaf      # method name -> True if the method needs leaf(receiver)
        self.sname = sname
        self.sites = []                    # (call node, receiver text, ok)

    def _kill(self, facts, name):
        return {f for f in facts if f != name and not f.startswith(name + ".")}

    def _cond_facts(self, test, pol):
        out = set()
        if isinstance(test, ast.Compare) and len(test.ops) == 1 and isinstance(test.comparators[0], ast.Constant) \
                and test.comparators[0].value is None:
            d = astq.dotted(test.left)
            if d and d.endswith("._midway"):
                is_none = isinstance(test.ops[0], ast.Is)
                if isinstance(test.ops[0], (ast.Is, ast.IsNot)) and (is_none == pol):
                    out.add(d[:-len("._midway")])
        if isinstance(test, ast.BoolOp) and isinstance(test.op, ast.And) and pol:
            for v in test.values:
                out |= self._cond_facts(v, True)
        if isinstance(test, ast.UnaryOp) and isinstance(test.op, ast.Not):
            out |= self._cond_facts(test.operand, not pol)
        return out

    def _calls_in(self, node):
        return [n for n in ast.walk(node) if isinstance(n, ast.Call) and isinstance(n.func, ast.Attribute)
                and n.func.attr in self.requires]

    def _apply_calls(self, node, facts):
        for c in self._calls_in(node):
            recv = astq.dotted(c.func.value)
            if recv is None:
                self.sites.append((c, ast.unparse(c.func.value), False))
                continue
            ok = recv in facts
            self.sites.append((c, recv, ok))
            facts = self._kill(facts, recv) | {recv + "._left_child", recv + "._right_child"}
            facts.discard(recv)
        return facts

    def block(self, stmts, facts):
        for s in stmts:
            if isinstance(s, (ast.Return, ast.Raise)):
                self._apply_calls(s, facts)
                return None
            if isinstance(s, (ast.Break, ast.Continue)):
                return None
            if isinstance(s, ast.Assign):
                facts = self._apply_calls(s.value, facts)
                for t in s.targets:
                    for el in ([t] if not isinstance(t, ast.Tuple) else t.elts):
                        if isinstance(el, ast.Name):
                            src = astq.dotted(s.value) if len(s.targets) == 1 and not isinstance(t, ast.Tuple) else None
                            was_leaf = src is not None and src in facts
                            facts = self._kill(facts, el.id)
                            if was_leaf:
                                facts.add(el.id)
                        elif isinstance(el, ast.Attribute):
                            d = astq.dotted(el)
                            if d:
                                facts = self._kill(facts, d)
                continue
            if isinstance(s, ast.Expr):
                facts = self._apply_calls(s.value, facts)
                continue
            if isinstance(s, ast.If):
                f1 = self.block(s.body, set(facts) | self._cond_facts(s.test, True))
                f2 = self.block(s.orelse, set(facts) | self._cond_facts(s.test, False))
                if f1 is None and f2 is None:
                    return None
                facts = f2 if f1 is None else f1 if f2 is None else (f1 & f2)
                continue
            if isinstance(s, (ast.While, ast.For)):
                # fixpoint: facts at the head = entry facts intersected with the facts after one more iteration
                head = set(facts)
                for _ in range(8):
                    saved = list(self.sites)
                    after = self.block(s.body, set(head) | (self._cond_facts(s.test, True) if isinstance(s, ast.While) else set()))
                    new_head = head & after if after is not None else head
                    if new_head == head:
                        break
                    head = new_head
                    self.sites = saved
                facts = head
                if isinstance(s, ast.While) and isinstance(s.test, ast.Constant) and s.test.value is True:
                    # leaves only through break: facts unknown beyond what held at the head
                    pass
                continue
            if isinstance(s, (ast.With, ast.Try)):
                r = self.block(s.body, facts)
                if r is None:
                    return None
                facts = r
                continue
        return facts


def r05_2(ctx):
    rep, model = ctx.rep, ctx.model
    rep.rule("R05.2", "leaf typestate: every call of a routine that splits its receiver is made on a leaf")
    cg = ctx.callgraph()
    base, fam = _interval_family(model)
    writers, _ = _split_routines(model, cg)
    # methods requiring leaf(self): the writers of `_midway`, then (fixpoint) methods that call one of them on self
    # without having established leaf(self) themselves
    requires = {model.functions[k].name: True for k in writers}
    n_sites = 0
    for _ in range(6):
        changed = False
        results = []
        for fi in model.functions.values():
            if isinstance(fi.node, ast.Lambda) or not fi.module.name.startswith(PKG):
                continue
            if not any(isinstance(n, ast.Call) and isinstance(n.func, ast.Attribute) and n.func.attr in requires
                       for n in own_nodes(fi.node)):
                continue
            sname = fi.params[0] if (fi.cls is not None and fi.params) else None
            entry = set()
            if sname and fi.name in requires:
                entry.add(sname)
            lf = LeafFacts(fi, requires, sname)
            lf.block(fi.node.body, entry)
            for c, recv, ok in lf.sites:
                if not ok and sname and recv == sname and fi.name not in requires and fi.cls in fam:
                    requires[fi.name] = True
                    changed = True
            results.append((fi, lf))
        if not changed:
            break
    for fi, lf in results:
        rep.analysed(fi)
        seen = set()
        for c, recv, ok in lf.sites:
            key = (astq.digest(c), recv)
            if key in seen:
                continue
            seen.add(key)
            n_sites += 1
            rep.check(ok, "R05.2", astq.loc(fi, c), f"{fi.key}::R05.2::{recv}.{c.func.attr}",
                      f"`{ast.unparse(c)[:60]}` splits `{recv}`, which is not known to be a leaf here (no dominating "
                      f"`{recv}._midway is None`, not a child created by a split in this function): re-splitting a node "
                      f"would redraw its seeds and orphan its subtree, so later queries return different values",
                      f"`{recv}` is a leaf here")
    rep.extra["routines_requiring_leaf"] = sorted(requires)
    ctx.floor("R05.2", 4)


# ------------------------------------------------------------------------------------------------ R05.3
def r05_3(ctx, model=None, fixture=False):
    rep = ctx.rep
    model = model or ctx.model
    if not fixture:
        rep.rule("R05.3", "value functions read no history slot, no module-level mutable, and call nothing outside their "
                          "closure but torch / math")
    cg = ctx.callgraph() if not fixture else CallGraph(model)
    value_slots, history, allowed = slot_classes(model, cg)
    closure = value_closure(model, cg)
    fired = 0
    mutable_globals = {}
    for m in model.modules.values():
        if not m.name.startswith(PKG):
            continue
        for name, expr in m.assigns.items():
            if isinstance(expr, (ast.List, ast.Dict, ast.Set, ast.ListComp, ast.DictComp)) or \
                    (isinstance(expr, ast.Call) and astq.call_name(expr) in ("list", "dict", "set")):
                mutable_globals[(m.name, name)] = expr
    for f in closure:
        if isinstance(f.node, ast.Lambda) and not f.module.name.startswith(PKG):
            continue
        if not f.module.name.startswith(PKG):
            continue
        if not fixture:
            rep.analysed(f)
        bad = []
        for n in own_nodes(f.node):
            if isinstance(n, ast.Attribute) and isinstance(n.ctx, ast.Load) and n.attr in history:
                # the memo cache is read by subscript only (R07.4) and is not a slot of this kind
                bad.append((n, f"reads history slot `{n.attr}`"))
            if isinstance(n, (ast.Global, ast.Nonlocal)):
                bad.append((n, "declares global / nonlocal state"))
            if isinstance(n, ast.Name) and isinstance(n.ctx, ast.Load) and (f.module.name, n.id) in mutable_globals \
                    and not astq.assignments_to(f, n.id):
                bad.append((n, f"reads module-level mutable `{n.id}`"))
            if isinstance(n, ast.Call):
                nm = astq.call_name(n)
                if nm.split(".")[0] in ("time", "os", "random", "id", "hash", "datetime", "uuid") or \
                        nm in ("id", "hash", "time.time", "torch.initial_seed", "torch.seed"):
                    bad.append((n, f"calls `{nm}` (not a function of the node's stored state)"))
        construct = f"{f.key}::R05.3::pure"
        if bad:
            fired += 1
            if not fixture:
                n, why = bad[0]
                rep.fail("R05.3", astq.loc(f, n), construct,
                         f"value function {f.qualname} {why} (`{ast.unparse(astq.stmt_of(f, n) or n)[:70]}`): the value "
                         f"returned for an interval would depend on the query history")
        elif not fixture:
            rep.ok("R05.3", astq.loc(f), construct, "reads only write-once slots, parameters and the memo cache")
    if fixture:
        return fired
    rep.extra["value_function_closure"] = sorted(f.qualname for f in closure if f.module.name.startswith(PKG))
    ctx.floor("R05.3", 8)


# ------------------------------------------------------------------------------------------------ R05.4
def rng_scan(model, cg, scope=PKG):
    """[(fi, call, ok, why)] for every random draw / RNG-state call in scope."""
    out = []
    for fi, call, text in cg.externals:
        if not fi.module.name.startswith(scope):
            continue
        is_draw = text in RNG_FUNCS and text != "torch.empty"
        is_np = text.startswith("np.random.") or text.startswith("numpy.random.") or text.startswith("random.")
        is_state = text in ("torch.manual_seed", "torch.seed", "torch.set_rng_state", "np.random.seed")
        if not (is_draw or is_np or is_state):
            continue
        if text.endswith("SeedSequence"):
            out.append((fi, call, True, "seed derivation (SeedSequence), not a draw"))
            continue
        if is_state:
            out.append((fi, call, False, "touches the global RNG state"))
            continue
        if is_np:
            conds = [(ast.unparse(c), p) for c, p, _ in astq.path_conditions(fi, call)]
            sg = seeded_generator(fi, call)
            if fi.name == "__init__" and ("entropy is None", True) in conds and text.endswith("randint"):
                out.append((fi, call, True, "tabled: default entropy when the caller gives none"))
            elif sg is not None:
                names = astq.names_loaded(sg[1]) - {"int", "float"}
                ok = bool(names) and names <= set(fi.params)
                out.append((fi, call, ok, f"numpy generator constructed from the seed `{ast.unparse(sg[1])}`" if ok else
                            f"numpy generator seeded with `{ast.unparse(sg[1])}`, which is not a function of the seed parameter only"))
            else:
                out.append((fi, call, False, "draws from numpy's / Python's global RNG (or builds an unseeded generator)"))
            continue
        gen = astq.kwarg(call, "generator")
        if gen is None:
            out.append((fi, call, False, "draw without a `generator=` argument uses torch's global RNG"))
            continue
        ok, why = _generator_seeded(fi, gen)
        out.append((fi, call, ok, why))
    return out


NUMPY_BITGENS = ("PCG64", "PCG64DXSM", "Philox", "SFC64", "MT19937")


def seeded_generator(fi, expr):
    """(kind, seed expression) if `expr` constructs a random generator from an explicit seed:
    torch.Generator(...).manual_seed(s); np.random.Generator(np.random.<BitGen>(s)); np.random.<BitGen>(s);
    np.random.default_rng(s); np.random.RandomState(s).  Otherwise None."""
    if isinstance(expr, ast.Call) and isinstance(expr.func, ast.Attribute) and expr.func.attr == "manual_seed" \
            and isinstance(expr.func.value, ast.Call) and astq.call_name(expr.func.value) == "torch.Generator" and expr.args:
        return "torch", expr.args[0], expr.func.value
    if isinstance(expr, ast.Call):
        nm = astq.call_name(expr) or ""
        tail = nm.split(".")[-1]
        if nm.startswith(("np.random.", "numpy.random.")):
            if tail == "Generator" and expr.args:
                inner = seeded_generator(fi, expr.args[0])
                return inner if inner and inner[0] == "numpy" else None
            if tail in NUMPY_BITGENS + ("default_rng", "RandomState") and (expr.args or expr.keywords):
                seed = expr.args[0] if expr.args else expr.keywords[0].value
                return "numpy", seed, expr
    return None


def _generator_seeded(fi, gen):
    """generator expression traces (through every binding of a local name) to a generator constructed from a seed that is
    a function of the function's parameters only"""
    exprs = [gen]
    if isinstance(gen, ast.Name):
        binds = [v for _, v in astq.assignments_to(fi, gen.id)]
        if not binds or any(b is None for b in binds):
            return False, f"generator `{gen.id}` is not bound by plain assignments"
        exprs = binds
    whys = []
    for expr in exprs:
        sg = seeded_generator(fi, expr)
        if sg is None:
            return False, f"generator `{ast.unparse(expr)[:50]}` is not constructed from an explicit seed"
        names = astq.names_loaded(sg[1]) - {"int", "float"}
        if not (names and names <= set(fi.params)):
            return False, f"seed `{ast.unparse(sg[1])}` is not a function of the seed parameter only"
        whys.append(f"{sg[0]} generator seeded with {ast.unparse(sg[1])}")
    return True, "; ".join(whys)


def r05_4(ctx, model=None, fixture=False):
    rep = ctx.rep
    model = model or ctx.model
    cg = ctx.callgraph() if not fixture else CallGraph(model)
    if not fixture:
        rep.rule("R05.4", "every random draw in torchsde/_brownian uses torch.Generator(...).manual_seed(seed parameter)")
    fired = 0
    for fi, call, ok, why in rng_scan(model, cg):
        if not ok:
            fired += 1
        if not fixture:
            rep.analysed(fi)
            rep.check(ok, "R05.4", astq.loc(fi, call), f"{fi.key}::R05.4::{astq.digest(call)}",
                      f"`{ast.unparse(call)[:70]}`: {why}; a repeated query would not regenerate the same noise", why)
    if fixture:
        return fired
    # the seeds handed to the seeded generator are node slots / seed-sequence outputs: checked semantically
    L = bk.eval_split(ctx.model, True, True)
    for size, seed, node, fi in L["hooks"].randn_calls:
        s = str(seed)
        rep.check(s in ("W_seed", "H_seed"), "R05.4", astq.loc(fi, node), f"{fi.key}::R05.4::seed-arg::{s}",
                  f"split noise seeded with `{s}`, which is not one of the node's stored seeds", "seeded from a node slot")
    ctx.floor("R05.4", 4)


# ------------------------------------------------------------------------------------------------ R05.5
FRESH_CALLS = ("torch.zeros", "torch.zeros_like", "torch.ones", "torch.empty", "torch.randn", "torch.stack", "torch.cat",
               "torch.tensor", "torch.full_like", "torch.sqrt", "torch.abs", "torch.max", "torch.bmm")


def _is_fresh(fi, expr, depth=0):
    """The expression certainly allocates a new tensor (arithmetic result / allocation), so mutating it is harmless."""
    if isinstance(expr, ast.BinOp):
        return True
    if isinstance(expr, ast.UnaryOp):
        return True
    if isinstance(expr, (ast.Constant, ast.List, ast.Tuple, ast.Dict, ast.Set, ast.ListComp, ast.DictComp,
                         ast.GeneratorExp, ast.JoinedStr)):
        return True
    if isinstance(expr, ast.IfExp):
        return _is_fresh(fi, expr.body, depth) and _is_fresh(fi, expr.orelse, depth)
    if isinstance(expr, ast.Call):
        nm = astq.call_name(expr)
        if nm in FRESH_CALLS:
            return True
        if isinstance(expr.func, ast.Attribute) and expr.func.attr in ("clone", "sqrt", "sum", "abs", "new_zeros"):
            return True
        return False
    if isinstance(expr, ast.Name) and depth < 3:
        binds = astq.assignments_to(fi, expr.id)
        return bool(binds) and all(v is not None and _is_fresh(fi, v, depth + 1) for _, v in binds)
    return False


def inplace_scan(model, scope_prefixes):
    out = []
    for fi in model.functions.values():
        if isinstance(fi.node, ast.Lambda) or not any(fi.module.name.startswith(p) for p in scope_prefixes):
            continue
        for n in own_nodes(fi.node):
            target = None
            kind = None
            if isinstance(n, ast.AugAssign):
                target, kind = n.target, f"augmented assignment `{ast.unparse(n)[:60]}`"
                if isinstance(target, ast.Attribute):
                    # counters / bookkeeping attributes (history slots) are not tensors
                    continue
            elif isinstance(n, ast.Call) and isinstance(n.func, ast.Attribute) and n.func.attr.endswith("_") \
                    and not n.func.attr.startswith("_") and n.func.attr not in ("requires_grad_",):
                target, kind = n.func.value, f"in-place method `{ast.unparse(n)[:60]}`"
            elif isinstance(n, ast.Call) and astq.kwarg(n, "out") is not None:
                target, kind = astq.kwarg(n, "out"), f"`out=` argument in `{ast.unparse(n)[:60]}`"
            if target is None:
                continue
            base = target
            while isinstance(base, ast.Subscript):
                base = base.value
            fresh = isinstance(base, ast.Name) and _is_fresh_name(fi, base.id, n)
            out.append((fi, n, kind, fresh, ast.unparse(base)))
    return out


def _is_fresh_name(fi, name, before):
    binds = [(s, v) for s, v in astq.assignments_to(fi, name) if s is not before and s.lineno <= before.lineno]
    if not binds:
        return False       # a parameter or an outer name: may alias anything
    return all(v is not None and _is_fresh(fi, v) for s, v in binds if not isinstance(s, ast.AugAssign))


def r05_5_solvers(ctx):
    """The in-place rule restricted to the solver side (step bodies and the stepping loop): for the properties that are
    about the solvers, not about the Brownian objects."""
    rep, model = ctx.rep, ctx.model
    rep.rule("R05.5", "no in-place operation, in a solver step or the stepping loop, on a tensor the step was handed (carried "
                      "extras, SDE outputs, Brownian increments)")
    n = 0
    for fi, node, kind, fresh, base in inplace_scan(model, ("torchsde._core.methods", "torchsde._core.base_solver")):
        n += 1
        rep.analysed(fi)
        rep.check(fresh, "R05.5", astq.loc(fi, node), f"{fi.key}::R05.5::{astq.digest(node)}",
                  f"{kind} mutates `{base}`, which is not provably a freshly allocated tensor (it may be a carried extra, a "
                  f"tensor the SDE returned and keeps, or a Brownian increment held in the cache): the step is then no longer "
                  f"a function of its arguments", f"`{base}` is a fresh arithmetic result")
    if n == 0:
        rep.ok("R05.5", "torchsde/_core/methods", "torchsde/_core/methods::R05.5::none", "no in-place operation in any solver")


def r05_5(ctx, model=None, fixture=False):
    rep = ctx.rep
    model = model or ctx.model
    if not fixture:
        rep.rule("R05.5", "no in-place operation on a tensor that may alias the cache, the stored top value or a "
                          "Brownian query result (package and solver steps)")
    fired = 0
    for fi, n, kind, fresh, base in inplace_scan(model, (PKG, "torchsde._core.methods", "torchsde._core.base_solver")):
        if not fresh:
            fired += 1
        if not fixture:
            rep.analysed(fi)
            rep.check(fresh, "R05.5", astq.loc(fi, n), f"{fi.key}::R05.5::{astq.digest(n)}",
                      f"{kind} mutates `{base}`, which is not provably a freshly allocated tensor (it may be the cached "
                      f"value of a node, the stored top-level pair, or a tensor returned to the caller): a later query "
                      f"for the same interval would return different numbers",
                      f"`{base}` is a fresh arithmetic result")
    if fixture:
        return fired
    ctx.floor("R05.5", 1)


def r05_7(ctx):
    """The wrappers of torchsde/_brownian/derived.py (BrownianPath, BrownianTree, ReverseBrownian) are views of one
    underlying Brownian object chosen at construction.  A wrapper that re-binds or replaces that object while answering a
    query (growing it, rebuilding it with the 'same' entropy) answers later queries from a different path: an interval
    sampled from a longer top-level interval is a different bridge.  Rule: in that module attribute stores on `self` occur
    in constructors only."""
    rep, model = ctx.rep, ctx.model
    rep.rule("R05.7", "Brownian wrappers keep the underlying object they were built with: no attribute store outside "
                      "constructors in torchsde/_brownian/derived.py")
    n_fn = 0
    for fi in model.functions.values():
        if isinstance(fi.node, ast.Lambda) or fi.module.relpath != DERIVED or fi.cls is None:
            continue
        n_fn += 1
        if fi.name == "__init__":
            continue
        rep.analysed(fi)
        sname = fi.params[0] if fi.params else "self"
        stores = [n for n in own_nodes(fi.node) if isinstance(n, ast.Attribute) and isinstance(n.ctx, (ast.Store, ast.Del))
                  and isinstance(n.value, ast.Name) and n.value.id == sname]
        stores += [c for c in astq.calls(fi) if astq.call_name(c) in ("setattr", "delattr") and c.args
                   and isinstance(c.args[0], ast.Name) and c.args[0].id == sname]
        construct = f"{fi.key}::R05.7::no-rebinding"
        if stores:
            st = stores[0]
            rep.fail("R05.7", astq.loc(fi, st), construct,
                     f"{fi.qualname} re-binds wrapper state (`{ast.unparse(astq.stmt_of(fi, st))[:80]}`) after construction: later "
                     f"queries are answered by a different underlying Brownian object than earlier ones (not one path)")
        else:
            rep.ok("R05.7", astq.loc(fi), construct, "no attribute store")
    if n_fn < 6:
        raise AnalysisError(f"only {n_fn} wrapper methods found in {DERIVED}")
    ctx.floor("R05.7", 5)


# ------------------------------------------------------------------------------------------------ R05.6
def r05_6(ctx):
    rep, model = ctx.rep, ctx.model
    rep.rule("R05.6", "memo cache keyed by the computing node itself; stores the computed pair unchanged; nodes define "
                      "neither __eq__ nor __hash__")
    from ..interp import Interp, Obj, SimRaise
    for have_H in (True, False):
        got_keys = []
        hooks = bk.BrownianHooks()
        r = bk.eval_split(model, have_H, True, hooks)
        fi = r["fi"]
        rep.analysed(fi)
        log = r["cache_log"]
        ok = len(log) == 1 and log[0][0] is r["me"] and isinstance(log[0][1], tuple) and len(log[0][1]) == 2 \
            and nf.equal(log[0][1][0], r["W_out"]) and (not have_H or nf.equal(log[0][1][1], r["H_out"]))
        rep.check(ok, "R05.6", astq.loc(fi), f"{fi.key}::R05.6::store::{'H' if have_H else 'noH'}",
                  f"the value function stores {[(str(k), str(v)) for k, v in log]} in the cache; it must store exactly "
                  f"the pair it returns under the key `self`", "cache[self] = (out_W, out_H) as returned")
    # the lookup uses `self` as key
    fi = model.func(BI, "_Interval._increment_and_space_time_levy_area")
    subs = [n for n in own_nodes(fi.node) if isinstance(n, ast.Subscript) and "cache" in ast.unparse(n.value)]
    for n in subs:
        rep.check(ast.unparse(n.slice) == fi.params[0], "R05.6", astq.loc(fi, n), f"{fi.key}::R05.6::key::{astq.digest(n)}",
                  f"cache access `{ast.unparse(n)}` is keyed by `{ast.unparse(n.slice)}`, not by the computing node "
                  f"`{fi.params[0]}`", "keyed by self")
    base, fam = _interval_family(model)
    for c in fam:
        for dunder in ("__eq__", "__hash__"):
            m = model.lookup_method(c, dunder)
            rep.check(m is None, "R05.6", f"{c.module.relpath}:{c.node.lineno}", f"{c.key}::R05.6::{dunder}",
                      f"{c.name} defines {dunder}: distinct nodes could collide as cache keys", f"no {dunder}")
    # the bounded cache stores the value it is given
    lru = model.cls(BI, "_LRUDict").methods.get("__setitem__")
    if lru is None:
        raise AnalysisError("_LRUDict.__setitem__ vanished", where=BI)
    sup = [c for c in astq.calls(lru) if isinstance(c.func, ast.Attribute) and c.func.attr == "__setitem__"]
    ok = len(sup) == 1 and [ast.unparse(a) for a in sup[0].args] == lru.params[1:3]
    rep.check(ok, "R05.6", astq.loc(lru), f"{lru.key}::R05.6::stores-verbatim",
              "the bounded cache does not store exactly (key, value) as given", "super().__setitem__(key, value)")
    ctx.floor("R05.6", 8)


def run_fixtures(ctx):
    """Expected-zero rules must fire on their positive fixtures on every run (else the rule is broken)."""
    import os
    from ..report import VERIF_DIR
    root = os.path.join(VERIF_DIR, "fixtures", "c05_bad")
    fm = RepoModel(root)
    for name, fn in (("R05.3", r05_3), ("R05.4", r05_4), ("R05.5", r05_5)):
        n = fn(ctx, model=fm, fixture=True)
        if not n:
            raise AnalysisError(f"positive fixture {root} is not flagged by {name}: the rule is broken")
        ctx.rep.extra.setdefault("fixtures_flagged", {})[name] = n


def run(ctx):
    ctx.guard(r05_1)
    ctx.guard(r05_2)
    ctx.guard(r05_3)
    ctx.guard(r05_4)
    ctx.guard(r05_5)
    ctx.guard(r05_6)
    ctx.guard(r05_7)
    ctx.guard(run_fixtures)
    # start-independence of the decomposition: every activation of the tree search is a function of (node, ta, tb) only
    # and follows the specification that makes the result an ordered contiguous cover (case analysis R03.8)
    from . import c03
    ctx.guard(c03.r03_8)
    # nothing __call__ itself remembers between calls (a memo of "the last query") may change an answer
    from . import c06
    ctx.guard(c06.r06_7)


_run_before_replay = run


def run(ctx):
    _run_before_replay(ctx)
    # small-model replay of the real tree: the interplay of cache, search hint, dependency tree, splitting and rounding over
    # whole query histories, on exact rationals with symbolic noise (replay.py)
    from . import replay_rules
    ctx.guard(replay_rules.r05_8)


EXPLANATION = EXPLANATION + " " + (
    'R05.8 (replay.py, see C03): per history, on a fresh object, the history, probe intervals, the history backwards and the probes again are asked; every interval asked more than once must get one and the same canonical form every time (cache sizes 0, 1, 45 / 0..4, 45, unbounded; dt hints; plain and dyadic tree; Levy modes none and space-time).')


_run_before_r03_11 = run


def run(ctx):
    _run_before_r03_11(ctx)
    from . import replay_rules
    ctx.guard(replay_rules.r03_11)


# ------------------------------------------------------------------------------------------------ R05.9
def r05_9(ctx):
    """History slots -- slots of the Brownian classes that are stored outside construction and splitting: the search hint,
    the query statistics -- may steer the *search* and the *refinement*, whose outcome does not depend on where they start
    (R03.8), but their contents must not flow into a returned value: a value accumulated from the previous answer has the
    same real value and other bits (floating-point addition is not associative), so the same query returns different
    tensors after different histories.  Intra-procedural taint over the methods of the interval classes: a name is tainted
    when assigned from an expression that reads a history slot, except through a call of the tree search on it
    (`<slot>._loc(...)`); a tainted name in a return expression is a violation."""
    rep, model = ctx.rep, ctx.model
    rep.rule("R05.9", "the contents of history slots (search hint, query statistics, anything stored per query) do not flow into "
                      "returned values, except through the start-independent tree search")
    cg = ctx.callgraph()
    value_slots, history, allowed = slot_classes(model, cg)
    base, fam = _interval_family(model)
    rep.extra["history_slots"] = sorted(history)
    SANITISERS = {"_loc", "_loc_inner"}
    n = 0
    for c in fam:
        for m in c.methods.values():
            if isinstance(m.node, ast.Lambda):
                continue
            n += 1
            rep.analysed(m)
            tainted = {}

            def reads_history(e):
                """A history-slot read (or a tainted name) inside `e` that is not the receiver of a sanitising search call."""
                sanitised = set()
                for x in ast.walk(e):
                    if isinstance(x, ast.Call) and isinstance(x.func, ast.Attribute) and x.func.attr in SANITISERS:
                        for y in ast.walk(x.func.value):
                            sanitised.add(id(y))
                for x in ast.walk(e):
                    if id(x) in sanitised:
                        continue
                    if isinstance(x, ast.Attribute) and isinstance(x.ctx, ast.Load) and x.attr in history and \
                            isinstance(x.value, ast.Name) and x.value.id == "self":
                        return f"self.{x.attr}"
                    if isinstance(x, ast.Name) and isinstance(x.ctx, ast.Load) and x.id in tainted:
                        return tainted[x.id]
                return None
            changed = True
            rounds = 0
            while changed and rounds < 6:
                changed, rounds = False, rounds + 1
                for st in own_nodes(m.node):
                    if isinstance(st, (ast.Assign, ast.AugAssign, ast.AnnAssign)) and getattr(st, "value", None) is not None:
                        src = reads_history(st.value)
                        if src is None:
                            continue
                        targets = st.targets if isinstance(st, ast.Assign) else [st.target]
                        for t in targets:
                            for x in ast.walk(t):
                                if isinstance(x, ast.Name) and isinstance(x.ctx, ast.Store) and x.id not in tainted:
                                    tainted[x.id] = src
                                    changed = True
            for st in own_nodes(m.node):
                if isinstance(st, ast.Return) and st.value is not None:
                    src = reads_history(st.value)
                    rep.check(src is None, "R05.9", astq.loc(m, st), f"{m.key}::R05.9::{astq.digest(st)}",
                              f"{m.qualname} returns `{ast.unparse(st.value)[:70]}`, which is computed from the history slot "
                              f"`{src}` (stored per query): the value returned for a query depends on what was asked before "
                              f"-- equal as a real number at best, not bit for bit", "no history in returned values")
    if n < 15:
        raise AnalysisError(f"R05.9 inspected only {n} methods of the interval classes")
    ctx.floor("R05.9", 15)


_run_before_r05_9 = run


def run(ctx):
    _run_before_r05_9(ctx)
    ctx.guard(r05_9)


_run_before_r05_10 = run


def run(ctx):
    _run_before_r05_10(ctx)
    # repeatability over seeded random histories (replay of the real tree)
    from . import replay_rules
    ctx.guard(replay_rules.r05_10)
