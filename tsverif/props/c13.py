"""C13 -- chunked (checkpoint-restart) integration equals one-shot integration (DESIGN.md section C13)."""
import ast
import os
from fractions import Fraction

from .. import astq, nf
from ..errors import AnalysisError
from ..interp import Cat, ClassRef, Closure, Hooks, Interp, Intrinsic, Obj, SimRaise
from ..model import own_nodes, RepoModel, ClassInfo
from ..nf import Rat
from . import integrate_kit as ik
from . import solverkit

SDEINT = "torchsde/_core/sdeint.py"
CORE = "torchsde._core"
MUTATORS = ("append", "extend", "insert", "update", "add", "pop", "clear", "setdefault", "remove", "popitem",
            "__setitem__", "discard", "sort", "reverse")

EXPLANATION = (
    "Effect analysis of torchsde/_core plus abstract evaluation of the plumbing (ast only). R13.1 (no hidden state): no "
    "function of the package other than a constructor stores an attribute on an object it did not create itself, declares "
    "global/nonlocal state, or mutates a module-level container (one tabled exception: the per-call autograd context "
    "`ctx` of an autograd.Function); so a solver, the stepping loop and the SDE wrappers carry nothing from one sdeint "
    "call to the next except what is returned. The rule fires on a positive fixture on every run. R13.2 (plumbing): "
    "integrate starts from (ts[0], y0, extra0) and returns the carried extra state; every step receives the carried "
    "extra (time-stamp analysis of the loop); sdeint passes extra_solver_state verbatim to integrate when given and "
    "init_extra_solver_state(ts[0], y0) otherwise, and returns integrate's extra when extra=True; reversible Heun "
    "returns (f, g, z) with (f, g) the fields at z, and initialises them at (t0, y0). Relies on C05 for the Brownian "
    "object. Not decided: bit identity itself (floating point)."
)


def _is_autograd_function(model, cls):
    return cls is not None and any("Function" in b for b in model.external_bases(cls))


def hidden_state_scan(model, scope=CORE):
    """[(fi, node, description)] of writes that outlive the call."""
    out = []
    for fi in model.functions.values():
        if isinstance(fi.node, ast.Lambda) or not fi.module.name.startswith(scope):
            continue
        if fi.name == "__init__":
            continue
        # names bound in this function to objects it constructed itself
        own_objs = set()
        for n in own_nodes(fi.node):
            if isinstance(n, ast.Assign) and isinstance(n.value, ast.Call) and len(n.targets) == 1 \
                    and isinstance(n.targets[0], ast.Name):
                r = model.resolve_expr_static(fi.module, n.value.func) if astq.dotted(n.value.func) else None
                if isinstance(r, ClassInfo):
                    own_objs.add(n.targets[0].id)
        ctx_ok = fi.is_static and _is_autograd_function(model, fi.cls) and fi.params
        for n in own_nodes(fi.node):
            if isinstance(n, (ast.Global, ast.Nonlocal)):
                out.append((fi, n, f"`{ast.unparse(n)}`"))
            target = None
            if isinstance(n, ast.Attribute) and isinstance(n.ctx, (ast.Store, ast.Del)):
                target = n
            if target is not None:
                root = astq.root_name(target)
                if root in own_objs:
                    continue
                if ctx_ok and root == fi.params[0]:
                    continue        # tabled: autograd context of this call
                out.append((fi, n, f"attribute store `{ast.unparse(astq.stmt_of(fi, n))[:70]}`"))
            if isinstance(n, ast.Call) and isinstance(n.func, ast.Attribute) and n.func.attr in MUTATORS \
                    and isinstance(n.func.value, ast.Name):
                name = n.func.value.id
                if name in fi.module.assigns and not astq.assignments_to(fi, name) and name not in fi.params \
                        and not any(name in p.params or astq.assignments_to(p, name) for p in _parents(fi)):
                    out.append((fi, n, f"mutation of module-level `{name}`: `{ast.unparse(n)[:60]}`"))
            if isinstance(n, ast.Subscript) and isinstance(n.ctx, (ast.Store, ast.Del)) and isinstance(n.value, ast.Name):
                name = n.value.id
                if name in fi.module.assigns and not astq.assignments_to(fi, name) and name not in fi.params \
                        and not any(name in p.params or astq.assignments_to(p, name) for p in _parents(fi)):
                    out.append((fi, n, f"store into module-level `{name}`"))
        # mutable default arguments that are mutated
        a = fi.node.args
        defaults = dict(zip([x.arg for x in a.args][len(a.args) - len(a.defaults):], a.defaults))
        for pname, d in defaults.items():
            if isinstance(d, (ast.List, ast.Dict, ast.Set)):
                for n in own_nodes(fi.node):
                    if isinstance(n, ast.Call) and isinstance(n.func, ast.Attribute) and n.func.attr in MUTATORS \
                            and isinstance(n.func.value, ast.Name) and n.func.value.id == pname:
                        out.append((fi, n, f"mutation of the mutable default argument `{pname}`"))
    return out


def _parents(fi):
    out = []
    f = fi.parent
    while f is not None:
        out.append(f)
        f = f.parent
    return out


def r13_1(ctx):
    rep, model = ctx.rep, ctx.model
    rep.rule("R13.1", "no hidden state: outside constructors nothing in torchsde/_core stores attributes on foreign "
                      "objects, declares global state or mutates module-level containers")
    found = hidden_state_scan(model)
    flagged = {}
    for fi, n, desc in found:
        flagged.setdefault(fi.key, []).append((fi, n, desc))
    n_funcs = 0
    for fi in model.functions.values():
        if isinstance(fi.node, ast.Lambda) or not fi.module.name.startswith(CORE) or fi.name == "__init__":
            continue
        n_funcs += 1
        rep.analysed(fi)
        if fi.key in flagged:
            for f2, n, desc in flagged[fi.key]:
                rep.fail("R13.1", astq.loc(fi, n), f"{fi.key}::R13.1::{astq.digest(astq.stmt_of(fi, n) or n)}",
                         f"{fi.qualname} keeps state across calls: {desc}; a restarted integration would not reproduce "
                         f"the one-shot run, and nothing returned through ys / extra carries this state")
        else:
            rep.ok("R13.1", astq.loc(fi), f"{fi.key}::R13.1::stateless")
    # positive fixture
    from ..report import VERIF_DIR
    fx = os.path.join(VERIF_DIR, "fixtures", "c13_bad")
    fm = RepoModel(fx)
    nf_found = hidden_state_scan(fm)
    if len(nf_found) < 3:
        raise AnalysisError(f"positive fixture {fx} yields {len(nf_found)} findings (expected >= 3): rule R13.1 is broken")
    rep.extra["fixture_findings"] = len(nf_found)
    ctx.floor("R13.1", 80)


class SdeintHooks(Hooks):
    def __init__(self):
        self.integrate_calls = []
        self.init_calls = []
        self.ctor_kwargs = []
        self.check_args = []
        self.apply_args = []
        self.other_solver_calls = []

    def on_call(self, interp, callee, args, kwargs, node, fi):
        if isinstance(callee, Closure) and callee.fi is not None:
            nm = callee.fi.name
            if nm == "check_contract":
                self.check_args.append(list(args))
                bound = dict(zip(callee.fi.params, args))
                bound.update(kwargs)
                y0, ts, bm, method, options = (bound.get(k) for k in ("y0", "ts", "bm", "method", "options"))
                return (Obj("fwd-sde", attrs={"sde_type": "stratonovich", "noise_type": "diagonal",
                                              "parameters": Intrinsic("parameters", lambda it, a, k, n, f: [nf.sym("theta")])}),
                        y0, ts, bm, method, options)
            if nm in ("assert_no_grad", "handle_unused_kwargs"):
                return None
            if nm == "select":
                return Intrinsic("solver_fn", self._solver_fn)
            if nm == "_select_default_adjoint_method":
                return args[2] if args[2] is not None else "adjoint-default"
        return NotImplemented

    def _solver_fn(self, it, a, k, n, f):
        self.ctor_kwargs.append(dict(k))

        def init(it2, a2, k2, n2, f2):
            self.init_calls.append(tuple(a2))
            return (nf.fn("INIT", a2[0], a2[1]),)

        def integrate(it2, a2, k2, n2, f2):
            self.integrate_calls.append(tuple(a2))
            return (nf.sym("YS_OUT"), (nf.sym("EXTRA_OUT"),))
        def other(it2, obj, name, node, fi2):
            # any other solver method the entry point may call: opaque, recorded
            def call(it3, a3, k3, n3, f3):
                self.other_solver_calls.append((name, tuple(a3)))
                return nf.fn(f"SOLVER.{name}", *[x for x in a3 if isinstance(x, (Rat, tuple))])
            return Intrinsic(f"solver.{name}", call)
        return Obj("solver", attrs={"init_extra_solver_state": Intrinsic("init", init),
                                    "integrate": Intrinsic("integrate", integrate)}, getattr_hook=other)

    def external_call(self, interp, dotted, args, kwargs, node, fi):
        if dotted.endswith("_SdeintAdjointMethod.apply"):
            self.apply_args.append(list(args))
            return (nf.sym("YS_OUT"), nf.sym("EXTRA_OUT"))
        if dotted in ("warnings.warn", "torch.allclose"):
            return True
        return NotImplemented

    def isinstance(self, interp, obj, classes):
        return True

    def tensor_attr(self, interp, recv, name, node, fi):
        if name == "requires_grad":
            return True
        return NotImplemented


class TimeAxis(Obj):
    """The output times as an opaque vector: indexable, with a length, and usable in the element-wise arithmetic of the
    entry points' sanity checks (whose results only feed warnings)."""

    def __init__(self):
        super().__init__("ts", getitem_hook=lambda i, o, idx, n, f: nf.sym(f"ts[{idx}]", True))
        self.attrs["__len__"] = Intrinsic("len", lambda it, a, k, n, f: Fraction(3))

    def sim_binop(self, op, l, r):
        return nf.sym("ts-arithmetic")


def eval_sdeint(model, extra_state, extra=True, which=("torchsde/_core/sdeint.py", "sdeint"), logqp=False, method="midpoint",
                extra_kw=None):
    fi = model.func(*which)
    hooks = SdeintHooks()
    if logqp:
        # parse_return itself is decided entry by entry by R18.6 (C18, also run by C13); here it is opaque
        def on_call(interp, callee, args, kwargs, node, f2, _orig=hooks.on_call):
            cfi = getattr(callee, "fi", None)
            if cfi is not None and cfi.name == "parse_return":
                return ("PARSED", args, kwargs)
            return _orig(interp, callee, args, kwargs, node, f2)
        hooks.on_call = on_call
        # shape-level meaning of what parse_return does to the solution when it separates the log-ratio channel
        def tensor_method(interp, recv, name, args, kwargs, node, f2, _orig=hooks.tensor_method):
            if name == "split":
                return (nf.sym("YS_STATE"), [nf.sym("L0"), nf.sym("L1"), nf.sym("L2")])
            if name in ("squeeze", "unsqueeze", "contiguous"):
                return recv
            if name == "size":
                return nf.sym("size", True)
            if name in ("new_zeros", "new_ones", "new_empty"):
                return nf.fn(name.upper(), recv)
            return _orig(interp, recv, name, args, kwargs, node, f2)
        hooks.tensor_method = tensor_method

        def tensor_attr(interp, recv, name, node, f2, _orig=hooks.tensor_attr):
            if name == "shape":
                return (nf.sym("B", True), nf.sym("D", True))
            return _orig(interp, recv, name, node, f2)
        hooks.tensor_attr = tensor_attr

        def external_call(interp, dotted, args, kwargs, node, f2, _orig=hooks.external_call):
            if dotted == "torch.stack":
                return Cat("stack", list(args[0]), kwargs.get("dim", Fraction(0)))
            if dotted == "torch.cat":
                return Cat("cat", list(args[0]), kwargs.get("dim", args[1] if len(args) > 1 else Fraction(0)))
            return _orig(interp, dotted, args, kwargs, node, f2)
        hooks.external_call = external_call
    it = Interp(model, hooks)
    ts = TimeAxis()
    kw = dict(sde=Obj("user-sde"), y0=nf.sym("y0"), ts=ts, bm=Obj("bm"), method=method, dt=nf.sym("dt", True),
              adaptive=False, rtol=nf.sym("rtol", True), atol=nf.sym("atol", True), dt_min=nf.sym("dt_min", True),
              options=None, names=None, logqp=logqp, extra=extra, extra_solver_state=extra_state)
    kw.update(extra_kw or {})
    out = it.call_function(fi, [], kw)
    return out, hooks, fi


def r13_2(ctx):
    rep, model = ctx.rep, ctx.model
    rep.rule("R13.2", "extra-state plumbing: sdeint -> init_extra_solver_state / extra_solver_state -> integrate -> "
                      "returned extra; the loop carries and returns the extra; reversible Heun's extras are (f, g, z) at z")
    E = (nf.sym("E_USER"),)
    out, hooks, fi = eval_sdeint(model, E)
    rep.analysed(fi)
    for extra_flag in (True, False):
        out_r, hooks_r, _ = eval_sdeint(model, E, extra=extra_flag)
        ic = hooks_r.integrate_calls
        ok = len(ic) == 1 and isinstance(ic[0][2], (tuple, list)) and nf.equal(tuple(ic[0][2]), E) \
            and not hooks_r.init_calls and nf.equal(ic[0][0], nf.sym("y0"))
        rep.check(ok, "R13.2", astq.loc(fi), f"{fi.key}::R13.2::resume::extra={extra_flag}",
                  f"with extra_solver_state given (extra={extra_flag}), integrate is called with state "
                  f"`{[str(x) for x in ic[0][2]] if ic and isinstance(ic[0][2], (tuple, list)) else (ic[0][2] if ic else None)}` "
                  f"(init calls: {len(hooks_r.init_calls)}, other solver calls: {[c[0] for c in hooks_r.other_solver_calls]}): the "
                  f"supplied state must reach the stepping loop unchanged, or a restarted run differs from the one-shot run",
                  "extra_solver_state reaches integrate unchanged")
    # ... also when the log-ratio is requested: the state handed in reaches the loop as it is, and the state handed back is
    # the loop's (the extra channel of the augmented system is part of the solver state: its drift entry is the integrand at
    # the hand-over time, which reversible Heun uses as the left end of its next trapezoid)
    for which in (("torchsde/_core/sdeint.py", "sdeint"), ("torchsde/_core/adjoint.py", "sdeint_adjoint")):
        try:
            out_q, hooks_q, fi_q = eval_sdeint(model, E, extra=True, which=which, logqp=True)
        except TypeError:
            continue
        ic = hooks_q.integrate_calls if which[1] == "sdeint" else [a[-2:] for a in hooks_q.apply_args]
        if which[1] == "sdeint":
            ok_in = len(ic) == 1 and isinstance(ic[0][2], (tuple, list)) and len(ic[0][2]) == len(E) and \
                all(isinstance(a, Rat) and nf.equal(a, b) for a, b in zip(ic[0][2], E)) and not hooks_q.init_calls
            shown = [str(x) for x in ic[0][2]] if ic and isinstance(ic[0][2], (tuple, list)) else None
        else:
            flat = [x for a in hooks_q.apply_args for x in a if isinstance(x, Rat)]
            ok_in = any(nf.equal(x, E[0]) for x in flat) and not hooks_q.init_calls
            shown = [str(x) for x in flat][:8]
        rep.check(ok_in, "R13.2", astq.loc(fi_q), f"{fi_q.key}::R13.2::resume::logqp",
                  f"{which[1]}(logqp=True, extra_solver_state=E) hands the solver `{shown}` (init calls: {len(hooks_q.init_calls)}): "
                  f"the supplied state must reach the stepping loop unchanged", "extra_solver_state reaches integrate unchanged")
    # ... and whatever pair of forward / backward methods sdeint_adjoint is asked for: which backward method will be used has
    # no say in the forward values of a resumed solve
    adj = ("torchsde/_core/adjoint.py", "sdeint_adjoint")
    for meth, adj_meth in (("midpoint", None), ("reversible_heun", None), ("reversible_heun", "midpoint"), ("reversible_heun", "euler_heun")):
        try:
            out_a, hooks_a, fi_a = eval_sdeint(model, E, extra=True, which=adj, method=meth, extra_kw={"adjoint_method": adj_meth})
        except (SimRaise, AnalysisError) as e:
            raise AnalysisError(f"R13.2: sdeint_adjoint(method={meth!r}, adjoint_method={adj_meth!r}) could not be evaluated: {e}")
        flat = [x for a in hooks_a.apply_args for x in a if isinstance(x, Rat)]
        ok_a = any(nf.equal(x, E[0]) for x in flat) and not hooks_a.init_calls
        rep.check(ok_a, "R13.2", astq.loc(fi_a), f"{fi_a.key}::R13.2::resume::method={meth},adjoint_method={adj_meth}",
                  f"sdeint_adjoint(method={meth!r}, adjoint_method={adj_meth!r}, extra_solver_state=E) hands the Function "
                  f"`{[str(x) for x in flat][:6]}` (init calls: {len(hooks_a.init_calls)}): the supplied state is discarded or "
                  f"replaced, so the forward values of a resumed solve depend on the backward method chosen",
                  "extra_solver_state reaches the solve unchanged")
    ok = isinstance(out, tuple) and len(out) == 2 and nf.equal(out[0], nf.sym("YS_OUT")) and \
        isinstance(out[1], tuple) and len(out[1]) == 1 and nf.equal(out[1][0], nf.sym("EXTRA_OUT"))
    rep.check(ok, "R13.2", astq.loc(fi), f"{fi.key}::R13.2::returns-extra",
              f"sdeint(extra=True) returns `{out}`; it must return integrate's final extra state", "returns integrate's extra")
    out2, hooks2, _ = eval_sdeint(model, None)
    ok = len(hooks2.integrate_calls) == 1 and len(hooks2.init_calls) == 1 and \
        nf.equal(hooks2.init_calls[0][0], nf.sym("ts[0]", True)) and nf.equal(hooks2.init_calls[0][1], nf.sym("y0")) and \
        nf.equal(hooks2.integrate_calls[0][2][0], nf.fn("INIT", nf.sym("ts[0]", True), nf.sym("y0")))
    rep.check(ok, "R13.2", astq.loc(fi), f"{fi.key}::R13.2::fresh-start",
              f"without extra_solver_state, init is called with {hooks2.init_calls} and integrate with "
              f"{hooks2.integrate_calls}: expected init_extra_solver_state(ts[0], y0) passed on", "initialised at (ts[0], y0)")
    # the loop: prologue / epilogue (shared with C12) and carried extras (tiling)
    from .c12 import r12_3
    r12_3(ctx)
    ik.rule_tiling(ctx, "R13.3")
    # reversible Heun extras
    from .c15 import r15_2
    r15_2(ctx)
    ctx.floor("R13.2", 3)


def r13_4(ctx):
    """Semantic hidden-state probe: a step taken by a solver object that has already taken another step equals the
    step of a fresh object, as canonical forms (state kept on the solver, the SDE wrapper or a module would show)."""
    from . import steps, solvers
    rep, model = ctx.rep, ctx.model
    rep.rule("R13.4", "a solver step does not depend on earlier steps of the same solver object (canonical form of a "
                      "second step == canonical form of a first step)")
    dom = solvers.Domains(model)
    for sc in steps.distinct_step_scenarios(model, dom):
        y_cold, e_cold, _, _ = steps.eval_step(model, sc, dom)
        y_warm, e_warm, _, _ = steps.eval_step(model, sc, dom, warm=True)
        rep.analysed(sc.step_fi)
        ok = nf.equal(y_cold, y_warm) and nf.equal(tuple(e_cold), tuple(e_warm))
        rep.check(ok, "R13.4", astq.loc(sc.step_fi), f"{sc.step_fi.key}::R13.4::{sc.cls.name}::{sc.noise_type}"
                  + ("::grad_free" if any(sc.options.values()) else ""),
                  f"{sc.label}: a step taken after another step of the same solver object evaluates to `{str(y_warm)[:200]}`, "
                  f"a fresh solver gives `{str(y_cold)[:200]}`: the solver carries state that is not returned through "
                  f"(y, extra), so a restarted integration differs from the one-shot one", "no dependence on earlier steps")
    ctx.floor("R13.4", 15)


def r13_5(ctx):
    """A solve restarted at a grid point knows (ts[0] = that point, y, the extras) and nothing else.  It continues
    bit-identically only if, in the fixed-step loop, each step's interval and inputs are functions of the carried
    (curr_t, curr_y, curr_extra), the step size and ts[-1] alone -- not of where the solve started (ts[0]) or of any
    other loop state (a step counter, a flag): `ts[0] + k dt` and `t_k + dt` differ in the last bit."""
    from . import integrate_kit as ik
    rep, model = ctx.rep, ctx.model
    rep.rule("R13.5", "fixed-step loop: step arguments depend only on (curr_t, curr_y, curr_extra, step size, ts[-1]) -- no "
                      "other loop state and not the start time, so a restart at a grid point continues on the same grid")
    fi, prologue, for_node, while_node, tail, epilogue = ik.loop_structure(model)
    rep.analysed(fi)
    allowed = {("s", "curr_t@head"), ("t", "curr_y@head"), ("t", "curr_extra@head"), ("s", "step_size@head"),
               ("s", "self.dt"), ("s", "ts[-1]")}
    n = 0
    for p in ik.enumerate_paths(model, False, while_node.body):
        for ta, tb, y, e, node in p.steps:
            n += 1
            bad = set()
            for v in (ta, tb, y, e):
                for x in (v if isinstance(v, (tuple, list)) else (v,)):
                    if isinstance(x, Rat):
                        bad |= {a for a in nf.all_atoms(x) if a[0] in ("s", "t") and a not in allowed}
            rep.check(not bad, "R13.5", astq.loc(fi, node), f"{fi.key}::R13.5::{p.label()}::{astq.digest(node)}",
                      f"`{ast.unparse(node)}` on the fixed-step path depends on {sorted(nf.show_atom(a) for a in bad)}: state "
                      f"that a solve restarted from the returned (time, state, extras) does not have, so the restarted solve "
                      f"steps on a grid that differs from the one-shot grid (in the last bit already)",
                      "depends on the restartable state only")
    if n < 1:
        raise AnalysisError("R13.5: no self.step call on the fixed-step path")
    ctx.floor("R13.5", 1)


def r13_6(ctx):
    """The state a chunked solve restarts from is the last reported output.  It continues the one-shot solve bit for bit
    only if what is reported is the loop state itself: a list of the states stacked at the end keeps them as they are,
    whereas a preallocated output tensor of a *fixed* dtype converts every write to that dtype -- with a float32 y0 and
    float64 coefficients or Brownian motion the loop state is float64 from the first step on, and the reported state is
    a rounded copy of it."""
    from . import integrate_kit as ik
    rep, model = ctx.rep, ctx.model
    rep.rule("R13.6", "the reported outputs are the loop states themselves (no conversion to a fixed dtype on the way out)")
    fi, prologue, for_node, while_node, tail, epilogue = ik.loop_structure(model)
    rep.analysed(fi)
    p, _ = ik.run_body(model, False, prologue, {})
    ys = p.env.get("ys")
    construct = f"{fi.key}::R13.6::outputs-unconverted"
    if ik.is_output_buffer(ys):
        dt = ys.attrs.get("dtype")
        rep.check(dt is None, "R13.6", astq.loc(fi), construct,
                  f"the outputs are written into a tensor preallocated with dtype `{dt}`: every write converts the loop state "
                  f"to that dtype, so with mixed precision (float32 y0, float64 coefficients or Brownian motion) the state "
                  f"handed back -- and a solve restarted from it -- is a rounded copy of the one-shot solve's loop state",
                  "outputs keep the loop state's dtype")
    else:
        rep.check(isinstance(ys, list), "R13.6", astq.loc(fi), construct,
                  f"the outputs are collected in `{ys!r}`, neither a list nor a recognised output tensor", "list of loop states")
    ctx.floor("R13.6", 1)


def run(ctx):
    ctx.guard(r13_1)
    ctx.guard(r13_2)
    ctx.guard(r13_4)
    ctx.guard(r13_5)
    ctx.guard(r13_6)
    # restart from the *reported* final state: the value reported at a step end must be the solver's own state bit for
    # bit (float-exact reduction of the interpolation formula at its end point; rule of C12)
    from . import c12
    ctx.guard(c12.r12_8)
    # a restart time handed over as a Python float must reach the solver in the state's precision: converted through another
    # dtype it is moved off the step grid (0.30000000000000004 -> 0.30000001192...), and the second chunk walks a shifted grid
    ctx.guard(c12.r12_5)
    # hidden state by mutation: a step must not update, in place, tensors it was handed
    from . import c05
    ctx.guard(c05.r05_5_solvers)
    from . import c18
    ctx.guard(c18.r18_6)          # ... and parse_return hands the solver state back unchanged, with and without logqp


_run_before_r12_7 = run


def run(ctx):
    _run_before_r12_7(ctx)
    # a chunk boundary on the step grid must be reached by the same steps as in the one-shot solve: the end-of-call guard
    # only absorbs a remainder of rounding-error size, also far from the origin of time (last-steps model of C12)
    from . import integrate_kit as _ik
    ctx.guard(_ik.rule_last_steps, "R13.7", False)


_run_before_r13_8 = run


def run(ctx):
    _run_before_r13_8(ctx)
    # whole solves with the real steps, as canonical forms (solver_replay.py)
    from . import solver_replay
    ctx.guard(solver_replay.r13_8)
    ctx.guard(solver_replay.r13_9)


EXPLANATION = EXPLANATION + " " + (
    "R13.8 (solver_replay.py, see C12): a solve over [0, 3/8] at once, in two chunks and one step per chunk, each chunk restarted from the returned final state and the returned extra solver state, for every distinct step scenario; the states at the chunk boundaries and the final extra state must be the one-shot solve's canonical forms.")
