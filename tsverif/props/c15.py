"""C15 -- reversible Heun is algebraically reversible (DESIGN.md section C15)."""
import ast
from fractions import Fraction

from .. import astq, nf
from ..errors import AnalysisError
from ..interp import Interp, Obj, SimRaise
from ..nf import Rat
from . import integrate_kit as ik
from . import solverkit, solvers

RH = "torchsde/_core/methods/reversible_heun.py"
DERIVED = "torchsde/_brownian/derived.py"

EXPLANATION = (
    "ReversibleHeun.step is partially evaluated (ast only) into canonical polynomial form twice: forward from "
    "(t0, y0, (F[t0,z0], G[t0,z0], z0)) over [t0, t0+h] with drift F, diffusion G and Brownian increment W[t0,t1]; then on "
    "the time-reflected, negated SDE F'(t,z) = -F(-t,z), G'(t,z) = -G(-t,z), over [-t1, -t0], started from the forward "
    "output y1 with the negated extras (-f1, -g1, z1), the Brownian motion being the repository's own ReverseBrownian "
    "(evaluated abstractly, so its time map is part of what is checked) around the same base path. R15.1: the second "
    "run returns exactly (y0, (-F[t0,z0], -G[t0,z0], z0)) as a polynomial identity in the opaque F, G, prod: the reverse "
    "step is the algebraic inverse of the forward step. R15.2: the carried (f, g) are the vector fields at the carried "
    "z, and init_extra_solver_state returns (f(t0,y0), g(t0,y0), y0). Not decided: numerical stability of the reverse "
    "recursion."
)


def forward_run(model, cls=None):
    cls = cls or model.cls(RH, "ReversibleHeun")
    t0, h, t1, y0 = solverkit.symbols()
    z0 = nf.sym("z0")
    f0, g0 = solverkit.F(t0, z0), solverkit.G(t0, z0)
    it = Interp(model, solverkit.StepHooks())
    base_bm = solverkit.make_bm()
    so = solverkit.solver_obj(model, cls, solverkit.make_sde(), base_bm)
    step = model.lookup_method(cls, "step")
    y1, extra1 = it.call_function(step, [so, t0, t1, y0, (f0, g0, z0)], {})
    return dict(t0=t0, h=h, t1=t1, y0=y0, z0=z0, f0=f0, g0=g0, y1=y1, extra1=extra1, step=step, base_bm=base_bm)


def r15_1(ctx):
    rep, model = ctx.rep, ctx.model
    rep.rule("R15.1", "reverse run of ReversibleHeun.step on the reflected negated SDE with ReverseBrownian and negated "
                      "extras returns the forward inputs (polynomial identity)")
    cls = model.cls(RH, "ReversibleHeun")
    fw = forward_run(model, cls)
    step = fw["step"]
    rep.analysed(step)
    if not (isinstance(fw["extra1"], tuple) and len(fw["extra1"]) == 3):
        raise AnalysisError("ReversibleHeun.step no longer returns a 3-tuple of extras", where=astq.loc(step))
    f1, g1, z1 = fw["extra1"]
    rcls = model.cls(DERIVED, "ReverseBrownian")
    rev_bm = Obj("reverse_bm", cls=rcls, attrs={"base_brownian": fw["base_bm"]})
    rev_sde = solverkit.make_sde(time_map=lambda t: -Rat.lift(t), sign=-1)
    it = Interp(model, solverkit.StepHooks())
    so = solverkit.solver_obj(model, cls, rev_sde, rev_bm)
    y_back, extra_back = it.call_function(step, [so, -fw["t1"], -fw["t0"], fw["y1"], (-f1, -g1, z1)], {})
    construct = f"{step.key}::R15.1::inverse"
    ok_y = isinstance(y_back, Rat) and nf.equal(y_back, fw["y0"])
    rep.check(ok_y, "R15.1", astq.loc(step), construct + "::y",
              f"running the step backwards from the forward output returns y = `{str(y_back)[:300]}`, not the forward "
              f"input y0: the reverse step is not the inverse of the forward step", "y reconstructed exactly")
    want = (-fw["f0"], -fw["g0"], fw["z0"])
    ok_e = isinstance(extra_back, tuple) and len(extra_back) == 3 and all(nf.equal(a, b) for a, b in zip(extra_back, want))
    rep.check(ok_e, "R15.1", astq.loc(step), construct + "::extras",
              f"the reverse step returns extras `{[str(x)[:120] for x in extra_back] if isinstance(extra_back, tuple) else extra_back}`; "
              f"reversibility requires (-f0, -g0, z0) = `{[str(x) for x in want]}`", "extras reconstructed exactly")
    ctx.floor("R15.1", 2)


def r15_2(ctx):
    rep, model = ctx.rep, ctx.model
    rep.rule("R15.2", "invariant: returned (f1, g1) = f_and_g(t1, z1) of the returned z1; initial extras = "
                      "(f(t0,y0), g(t0,y0), y0)")
    cls = model.cls(RH, "ReversibleHeun")
    fw = forward_run(model, cls)
    f1, g1, z1 = fw["extra1"]
    ok = nf.equal(f1, solverkit.F(fw["t1"], z1)) and nf.equal(g1, solverkit.G(fw["t1"], z1))
    rep.check(ok, "R15.2", astq.loc(fw["step"]), f"{fw['step'].key}::R15.2::carried-fields",
              f"the step returns (f1, g1) = (`{str(f1)[:100]}`, `{str(g1)[:100]}`), not the vector fields evaluated at "
              f"(t1, returned z1): the next step (and the reverse step) would start from inconsistent extras",
              "(f1, g1) = f_and_g(t1, z1)")
    init = model.lookup_method(cls, "init_extra_solver_state")
    it = Interp(model, solverkit.StepHooks())
    so = solverkit.solver_obj(model, cls, solverkit.make_sde(), solverkit.make_bm())
    t0, y0 = fw["t0"], fw["y0"]
    ex = it.call_function(init, [so, t0, y0], {})
    want = (solverkit.F(t0, y0), solverkit.G(t0, y0), y0)
    ok = isinstance(ex, tuple) and len(ex) == 3 and all(nf.equal(a, b) for a, b in zip(ex, want))
    rep.check(ok, "R15.2", astq.loc(init), f"{init.key}::R15.2::initial-extras",
              f"init_extra_solver_state returns `{ex}`; the invariant needs (f(t0,y0), g(t0,y0), y0)",
              "(f(t0,y0), g(t0,y0), y0)")
    ctx.floor("R15.2", 2)


def r15_3(ctx):
    ik.rule_last_steps(ctx, "R15.3", drift=True)


def run(ctx):
    ctx.guard(r15_1)
    ctx.guard(r15_2)
    ctx.guard(r15_3)
    # "reconstructs every state of the forward trajectory": the reversed solve walks the reflected forward grid only
    # if the grid is a function of (ts[0], ts[-1], dt) alone -- output times must not move step boundaries (rules of C12)
    from . import c12
    ctx.guard(c12.r12_1)
    ctx.guard(c12.r12_2)
    ctx.guard(c12.ik.rule_tiling, "R12.6")
    # the forward grid is accumulated upwards from ts[0], the reversed one from -ts[-1]: they agree to the rounding of the
    # *time* dtype, so a list / tuple `ts` must be given the state's dtype (float64 states on a float32 grid reconstruct
    # only to 1e-3)
    ctx.guard(c12.r12_5)
    # the reverse step inverts the forward step only if both are functions of their arguments: a step that updates a
    # tensor it was handed (carried f / g, an SDE output, a Brownian increment) in place changes data it does not own
    from . import c05
    ctx.guard(c05.r05_5_solvers)
    # the reverse solve sees, through ReverseBrownian, the very path the forward solve saw: the wrappers do not replace the
    # object they view while answering a query
    ctx.guard(c05.r05_7)


_run_before_r10_7 = run


def run(ctx):
    _run_before_r10_7(ctx)
    # "reconstructs every state up to rounding error": the reversed solve must query the Brownian motion on the intervals the
    # forward solve used, as floating-point numbers (rule of C10; known finding: the two grids are anchored at opposite ends)
    from . import c10
    ctx.guard(c10.r10_7)


# ------------------------------------------------------------------------------------------------ R15.9
def r15_9(ctx):
    """The reversed solve sees the path t -> -W(-t): ReverseBrownian asks the base object for (-tb, -ta).  With a tolerance
    the base quantises those times; the reversed query hits the mirror image of the forward query's cell only if the
    quantiser is odd, q(-x) = -q(x), for every x -- grid points, half cells and the ulp-neighbours of both that the two
    accumulated step grids produce.  (Rounding to nearest, ties to even, is odd; a floor or a ceiling is not: -0.8 and
    0.7999999999999999 land one cell apart.)  The quantiser the constructor builds is evaluated on exact rationals."""
    from fractions import Fraction as F
    from . import c04
    from ..interp import Interp
    from . import brownian_kit as bk
    rep, model = ctx.rep, ctx.model
    rep.rule("R15.9", "the time quantiser of a Brownian motion with a tolerance is odd (q(-x) == -q(x)), so that the reversed "
                      "solve's queries (-tb, -ta) are quantised to the mirror image of the forward ones")
    fi = model.func(c04.BI, "BrownianInterval.__init__")
    rep.analysed(fi)
    n = 0
    for tol in (F(1, 1000), F(5, 1000), F(1, 10), F(1, 10 ** 6)):
        r = c04.eval_init(model, t0=F(-2), t1=F(2), tol=tol)
        q = r["me"].attrs.get("_round")
        it = Interp(model, bk.BrownianHooks())
        cell = tol
        xs = []
        for base in (F(0), F(4, 5), F(1, 3), F(1)):
            for off in (F(0), cell / 2, cell / 2 - cell / 1000, cell / 2 + cell / 1000, cell / 1000, -cell / 1000, cell / 3):
                xs.append(base + off)
        bad = []
        for x in xs:
            a, b = it.call(q, [x], {}), it.call(q, [-x], {})
            if not (isinstance(a, F) and isinstance(b, F)):
                raise AnalysisError("the quantiser does not return a number on an exact rational", where=astq.loc(fi))
            if a != -b:
                bad.append((x, a, b))
        n += 1
        rep.check(not bad, "R15.9", astq.loc(fi), f"{fi.key}::R15.9::tol={tol}",
                  f"tol={tol}: q({bad[0][0] if bad else ''}) = {bad[0][1] if bad else ''} but q({-bad[0][0] if bad else ''}) = "
                  f"{bad[0][2] if bad else ''} ({len(bad)} of {len(xs)} sample points): the reversed solve reads other cells of "
                  f"the path than the forward solve did, and the states are not reconstructed", "q(-x) == -q(x)")
    ctx.floor("R15.9", 4)


_run_before_r15_9 = run


def run(ctx):
    _run_before_r15_9(ctx)
    ctx.guard(r15_9)


_run_before_r15_10 = run


def run(ctx):
    _run_before_r15_10(ctx)
    # whole solves with the real steps, as canonical forms (solver_replay.py)
    from . import solver_replay
    ctx.guard(solver_replay.r15_10)


EXPLANATION = EXPLANATION + " " + (
    'R15.10 (solver_replay.py, see C12): reversible Heun (all four noise types) forward over two and three whole steps, then the same solver on the negated, time-reversed SDE (wrappers over the same opaque F, G) driven by the real ReverseBrownian.__call__ over the same opaque path, from the final state with the negated final (f, g) extras; every forward state must be returned as a polynomial identity.')
