"""C19 -- unsupported combinations and malformed inputs are rejected up-front (DESIGN.md section C19)."""
import ast
from fractions import Fraction

from .. import astq, nf
from ..errors import AnalysisError
from ..interp import ClassRef, Hooks, Interp, Intrinsic, Obj, SimRaise
from ..model import own_nodes
from . import solverkit, solvers

SDEINT = "torchsde/_core/sdeint.py"
ADJOINT = "torchsde/_core/adjoint.py"
ADJOINT_SDE = "torchsde/_core/adjoint_sde.py"
MISC = "torchsde/_core/misc.py"

EXPLANATION = (
    "Finite-domain evaluation of the dispatch code (ast only; constant propagation over the enum domains of "
    "settings.py). R19.1: for the whole product sde_type x noise_type x method x Levy mode (+ an unknown method name) "
    "methods.select and the selected solver's constructor chain are evaluated on an abstract forward SDE; the accepted "
    "set must equal the documented support matrix (frozen table) and every rejection must be a ValueError. R19.2: every "
    "`raise` in the validation phase (check_contract and what it constructs, assert_no_grad, methods.select, the solver "
    "constructors, the default-adjoint selector) raises ValueError. R19.3: in sdeint and sdeint_adjoint validation "
    "precedes solver construction, which precedes integration; check_contract has a single return, after its last "
    "guard. R19.4: one guard per malformed-argument class (inventory of raise sites with their path conditions); "
    "is_strictly_increasing compares adjacent pairs strictly. R19.5: the default method tables are total over 2x4 and "
    "land in the accepted set with the default Levy mode chosen for bm=None; every solver class defines the five "
    "abstract attributes. R19.6: for an adjoint SDE each solver either refuses in its constructor or uses only slots "
    "that AdjointSDE implements or stubs with an explicit raise."
)

ALL = "all"
# Documented support matrix (DOCUMENTATION.md / README): method -> (sde_type, noise types, Levy modes)
DOCUMENTED = {
    "euler": ("ito", ALL, ALL),
    "milstein@ito": ("ito", ("additive", "diagonal", "scalar"), ALL),
    "srk": ("ito", ("additive", "diagonal", "scalar"), ("space-time", "davie", "foster")),
    "euler_heun": ("stratonovich", ALL, ALL),
    "heun": ("stratonovich", ALL, ALL),
    "midpoint": ("stratonovich", ALL, ALL),
    "milstein@stratonovich": ("stratonovich", ("additive", "diagonal", "scalar"), ALL),
    "reversible_heun": ("stratonovich", ALL, ALL),
    "log_ode": ("stratonovich", ALL, ("davie", "foster")),
}
DEFAULT_METHOD = {("ito", "diagonal"): "srk", ("ito", "additive"): "srk", ("ito", "scalar"): "srk",
                  ("ito", "general"): "euler", ("stratonovich", "diagonal"): "midpoint",
                  ("stratonovich", "additive"): "midpoint", ("stratonovich", "scalar"): "midpoint",
                  ("stratonovich", "general"): "midpoint"}


def documented_accepts(method, sde_type, noise, levy):
    for key in (method, f"{method}@{sde_type}"):
        if key in DOCUMENTED:
            st, nts, lvs = DOCUMENTED[key]
            return st == sde_type and (nts == ALL or noise in nts) and (lvs == ALL or levy in lvs)
    return False


def _dom(ctx):
    if "dom" not in ctx._cache:
        ctx._cache["dom"] = solvers.Domains(ctx.model)
    return ctx._cache["dom"]


def evaluate_config(model, dom, tbl, method, sde_type, noise, levy, adjoint=False, options=None):
    """-> ('accept', solver obj) | ('reject', exception name, where)"""
    if method not in dom.methods.values():
        sel = tbl[("<unknown-method>", sde_type)]
    else:
        sel = tbl[(method, sde_type)]
    if isinstance(sel, tuple):
        return ("reject", sel[1], "methods.select")
    sde = solvers.make_sde_obj(model, sde_type, noise, adjoint=adjoint)
    bm = solvers.make_bm_obj(levy, 1 if noise == dom.noise_types.get("scalar") else 3)
    try:
        obj = solvers.instantiate(model, sel, sde, bm, options or {})
    except SimRaise as e:
        return ("reject", e.exc_name, f"{sel.name}.__init__")
    return ("accept", obj, sel.name)


def r19_1(ctx):
    rep, model = ctx.rep, ctx.model
    rep.rule("R19.1", "accepted (sde_type, noise_type, method, Levy) set == documented matrix; every rejection is a "
                      "ValueError")
    dom = _dom(ctx)
    tbl = solvers.select_table(model, dom)
    sel_fi = model.func(solvers.METHODS_INIT, "select")
    rep.analysed(sel_fi)
    n = 0
    for method in list(dom.methods.values()) + ["<unknown-method>"]:
        for st in dom.sde_types.values():
            for nt in dom.noise_types.values():
                for lv in dom.levy.values():
                    n += 1
                    res = evaluate_config(model, dom, tbl, method, st, nt, lv)
                    want = documented_accepts(method, st, nt, lv)
                    construct = f"{solvers.METHODS_INIT}::R19.1::{method}/{st}/{nt}/{lv}"
                    if res[0] == "accept":
                        rep.check(want, "R19.1", astq.loc(sel_fi), construct,
                                  f"method={method}, sde_type={st}, noise_type={nt}, levy_area_approximation={lv} is "
                                  f"accepted by {res[2]}'s constructor but is not in the documented support matrix: an "
                                  f"unsupported combination would be integrated silently", "accepted and documented")
                    else:
                        ok = (not want) and res[1] == "ValueError"
                        msg = (f"method={method}, sde_type={st}, noise_type={nt}, levy={lv} is documented as supported "
                               f"but {res[2]} raises {res[1]}") if want else \
                            (f"method={method}, sde_type={st}, noise_type={nt}, levy={lv} is rejected by {res[2]} with "
                             f"{res[1]} instead of ValueError")
                        rep.check(ok, "R19.1", astq.loc(sel_fi), construct, msg, f"rejected with ValueError by {res[2]}")
    rep.extra["configurations_evaluated"] = n
    ctx.floor("R19.1", 300)


def validation_phase(ctx):
    """Functions of the validation phase: reachable from check_contract, assert_no_grad, select, the solver
    constructors and the default-adjoint selector -- without entering integrate / step / the Brownian query path."""
    model = ctx.model
    cg = ctx.callgraph()
    dom = _dom(ctx)
    classes, _ = solvers.solver_classes(model, dom)
    roots = [model.func(SDEINT, "check_contract"), model.func(MISC, "assert_no_grad"),
             model.func(solvers.METHODS_INIT, "select"), model.func(ADJOINT, "_select_default_adjoint_method")]
    for c in classes:
        init = model.lookup_method(c, "__init__")
        if init is not None and init not in roots:
            roots.append(init)
        for k in model.mro(c):
            if "__init__" in k.methods and k.methods["__init__"] not in roots:
                roots.append(k.methods["__init__"])
    stop = {"integrate", "step", "__call__", "init_extra_solver_state", "forward", "backward"}
    succ = cg.succ(kinds=("direct", "slot", "callback"))
    seen = {r.key: r for r in roots}
    stack = list(roots)
    while stack:
        f = stack.pop()
        for e in succ.get(f.key, []):
            if e.dst.name in stop or e.dst.key in seen:
                continue
            seen[e.dst.key] = e.dst
            stack.append(e.dst)
    # nested helper functions of check_contract
    for f in list(seen.values()):
        for sub in f.nested.values():
            seen.setdefault(sub.key, sub)
    return list(seen.values())


def r19_2(ctx):
    rep, model = ctx.rep, ctx.model
    rep.rule("R19.2", "every raise of the validation phase raises ValueError")
    funcs = validation_phase(ctx)
    rep.extra["validation_phase_functions"] = sorted(f.qualname for f in funcs)
    # the default slots of the SDE wrapper raise when a solver needs a method the user did not supply: C16's "explicit
    # error", designed to surface at the first step; they are not validation, even where the receiver of an `sde.f(...)`
    # call in check_contract cannot be resolved to anything narrower than "some object with a slot f"
    fwd = ctx.model.cls("torchsde/_core/base_sde.py", "ForwardSDE")
    default_slots = set()
    for n in own_nodes(fwd.methods["__init__"].node):
        if isinstance(n, ast.Call) and isinstance(n.func, ast.Name) and n.func.id == "getattr" and len(n.args) == 3 \
                and isinstance(n.args[2], ast.Attribute):
            default_slots.add(n.args[2].attr)
    for f in funcs:
        if isinstance(f.node, ast.Lambda):
            continue
        if f.cls is fwd and f.name in default_slots:
            continue
        rep.analysed(f)
        for n in own_nodes(f.node):
            if not isinstance(n, ast.Raise):
                continue
            if n.exc is None:
                name = "<re-raise>"
            else:
                e = n.exc.func if isinstance(n.exc, ast.Call) else n.exc
                name = astq.dotted(e) or ast.unparse(e)
            if name == "trampoline.TailCall":
                continue
            construct = f"{f.key}::R19.2::raise {name}"
            rep.check(name == "ValueError", "R19.2", astq.loc(f, n), construct,
                      f"{f.qualname} rejects its input with {name} (`{ast.unparse(n)[:70]}`); malformed arguments and "
                      f"unsupported combinations must raise ValueError before any integration",
                      "raises ValueError")
    ctx.floor("R19.2", 40)


def r19_3(ctx):
    rep, model = ctx.rep, ctx.model
    rep.rule("R19.3", "validation precedes solver construction precedes integration; check_contract returns once, last")
    for path, name, integ in ((SDEINT, "sdeint", "integrate"), (ADJOINT, "sdeint_adjoint", "apply")):
        fi = model.func(path, name)
        rep.analysed(fi)
        idx = {}
        # the solver constructor is whatever name the result of methods.select(...) is bound to -- or the select call
        # itself when its result is called at once, `methods.select(...)(sde=..., ...)`
        ctor_name = None
        for s in fi.node.body:
            if isinstance(s, ast.Assign) and isinstance(s.value, ast.Call) and astq.call_name(s.value).endswith("methods.select") \
                    and len(s.targets) == 1 and isinstance(s.targets[0], ast.Name):
                ctor_name = s.targets[0].id
        for i, s in enumerate(fi.node.body):
            for c in [n for n in ast.walk(s) if isinstance(n, ast.Call)]:
                nm = astq.call_name(c)
                compound = isinstance(s, (ast.If, ast.For, ast.While, ast.Try))
                if isinstance(c.func, ast.Call) and astq.call_name(c.func).endswith("methods.select") and "ctor" not in idx:
                    idx["ctor"] = (i, compound)
                for key, pat in (("check", "check_contract"), ("nograd", "assert_no_grad"), ("select", "methods.select"),
                                 ("ctor", ctor_name), ("integrate", "." + integ)):
                    if pat is not None and nm.endswith(pat) and key not in idx:
                        idx[key] = (i, compound)
        missing = [k for k in ("check", "nograd", "select", "ctor", "integrate") if k not in idx]
        construct = f"{fi.key}::R19.3::order"
        if missing:
            rep.fail("R19.3", astq.loc(fi), construct, f"{name} no longer calls {missing} at its top level")
            continue
        order = [idx[k][0] for k in ("check", "nograd", "select", "ctor", "integrate")]
        cond = [k for k in ("check", "nograd") if idx[k][1]]
        ok = order == sorted(order) and order[0] < order[2] and order[1] < order[3] and order[3] < order[4] and not cond
        rep.check(ok, "R19.3", astq.loc(fi), construct,
                  f"in {name} the statement order of (check_contract, assert_no_grad, methods.select, solver constructor, "
                  f"{integ}) is {order}{' with conditional validation ' + str(cond) if cond else ''}: validation must "
                  f"dominate construction and integration", "validation dominates construction and integration")
    cc = model.func(SDEINT, "check_contract")
    rets = [n for n in own_nodes(cc.node) if isinstance(n, ast.Return)]
    raises = [n for n in own_nodes(cc.node) if isinstance(n, ast.Raise)]
    ok = len(rets) == 1 and cc.node.body[-1] is rets[0] and all(r.lineno < rets[0].lineno for r in raises)
    rep.check(ok, "R19.3", astq.loc(cc), f"{cc.key}::R19.3::single-return",
              f"check_contract has {len(rets)} return statement(s); an early return would skip the later guards",
              "single return after the last guard")
    ctx.floor("R19.3", 3)


def _raise_sites(fi):
    out = []
    funcs = [fi] + list(fi.nested.values())
    for f in funcs:
        if isinstance(f.node, ast.Lambda):
            continue
        for n in own_nodes(f.node):
            if isinstance(n, ast.Raise):
                facts = []
                for cond, pol, kind in astq.path_conditions(f, n):
                    facts.append((ast.unparse(cond), pol))
                loops = [ast.unparse(s.iter) for s in astq.enclosing_stmts(f, n, types=(ast.For,))]
                out.append((f, n, facts, loops))
    return out


def r19_4(ctx):
    rep, model = ctx.rep, ctx.model
    rep.rule("R19.4", "one guard per malformed-argument class")
    cc = model.func(SDEINT, "check_contract")
    rep.analysed(cc)
    sites = _raise_sites(cc)

    # the per-class guards, the size bookkeeping (which shapes are cross-checked) and the drift / diffusion presence
    # flags are decided semantically, on shape-only tensors, by R19.7 -- nothing here depends on how check_contract
    # names its locals
    # is_strictly_increasing: evaluated on small concrete sequences
    isi = model.func(MISC, "is_strictly_increasing")
    rep.analysed(isi)
    it = Interp(model, ContractHooks())
    F = Fraction
    table = {(1, 2, 3): True, (1, 1, 2): False, (2, 1, 3): False, (1, 3, 2): False, (1, 2, 2): False, (5,): True}
    bad = []
    for seq, want in table.items():
        got = it.call_function(isi, [TSeq([F(x) for x in seq])], {})      # check_contract always hands it a tensor
        if bool(got) != want:
            bad.append((seq, bool(got)))
    rep.check(not bad, "R19.4", astq.loc(isi), f"{isi.key}::R19.4::strict",
              f"is_strictly_increasing gives {bad} on small sequences: equal or decreasing adjacent times must be rejected",
              "adjacent pairs compared with strict <")
    # assert_no_grad: names and tensors aligned and containing ts, dt
    ang = model.func(MISC, "assert_no_grad")
    for path, name in ((SDEINT, "sdeint"), (ADJOINT, "sdeint_adjoint")):
        fi = model.func(path, name)
        calls = [c for c in astq.calls(fi) if astq.call_name(c).endswith("assert_no_grad")]
        for c in calls:
            # arguments bound by the callee's own parameter order, whatever style the call site uses; the labels only
            # appear in the error message, so only their number matters (zip would silently drop unlabelled tensors)
            pnames = [a.arg for a in ang.node.args.args]
            bound = dict(zip(pnames, c.args))
            bound.update({k.arg: k.value for k in c.keywords if k.arg})
            vals = [bound.get(p) for p in pnames[:2]]
            ok = len(pnames) >= 2 and all(isinstance(v, (ast.List, ast.Tuple)) for v in vals) and \
                len(vals[0].elts) == len(vals[1].elts) and {"ts", "dt"} <= {ast.unparse(e) for e in vals[1].elts}
            rep.check(ok, "R19.4", astq.loc(fi, c), f"{fi.key}::R19.4::no-grad-args",
                      f"`{ast.unparse(c)[:90]}`: names and values must be aligned and include ts and dt",
                      "ts, dt (and tolerances) checked for requires_grad")
    raises = [n for n in own_nodes(ang.node) if isinstance(n, ast.Raise)]
    ok = len(raises) == 1 and any("requires_grad" in ast.unparse(c) and p for c, p, _ in astq.path_conditions(ang, raises[0]))
    rep.check(ok, "R19.4", astq.loc(ang), f"{ang.key}::R19.4::raises-on-grad",
              "assert_no_grad does not raise exactly when a tensor argument requires grad", "raises when requires_grad")
    ctx.floor("R19.4", 4)


class _CCHooks(solvers.QuietHooks):
    def __init__(self):
        self.bm_kwargs = []

    def on_call(self, interp, callee, args, kwargs, node, fi):
        if isinstance(callee, ClassRef) and callee.cls.name == "BrownianInterval":
            self.bm_kwargs.append(dict(kwargs))
            return Obj("default-bm", attrs={"levy_area_approximation": kwargs.get("levy_area_approximation")})
        return NotImplemented


def default_method(model, sde_type, noise, bm_levy=None):
    """The method sdeint hands to methods.select when the caller gives none -- by evaluating the whole validation phase (C19's
    shape-only scenario) with method=None; `bm_levy` None means bm=None (the default Brownian motion is built), otherwise a
    Brownian motion with that Levy-area mode is supplied."""
    cc = model.func(SDEINT, "check_contract")
    m_ch = 1 if noise == "scalar" else 3
    sde = make_user_sde(noise, sde_type, m=m_ch)
    fi = model.func(SDEINT, "sdeint")
    hooks = ContractHooks()
    it = Interp(model, hooks)
    bm = None if bm_levy is None else Obj("bm", attrs={"shape": (Fraction(4), Fraction(m_ch)), "levy_area_approximation": bm_levy})
    kw = dict(sde=sde, y0=TObj((4, 3), "y0"), ts=[Fraction(0), Fraction(1, 2), Fraction(1)], bm=bm, method=None, adaptive=False,
              options=None, names=None, logqp=False, dt=Fraction(1, 100))
    try:
        it.call_function(fi, [], kw)
    except SimRaise as e:
        if e.exc_name != "_IntegrationStarts" and not getattr(hooks, "selected", None):
            raise
    sel = getattr(hooks, "selected", None)
    if not sel:
        raise AnalysisError(f"sdeint(method=None) for ({sde_type}, {noise}) never reaches methods.select", where=astq.loc(cc))
    return sel[0], cc.node


def default_levy(model, method):
    cc = model.func(SDEINT, "check_contract")
    node = next((s for s in cc.node.body if isinstance(s, ast.If) and ast.unparse(s.test) == "bm is None"), None)
    if node is None:
        raise AnalysisError("check_contract no longer has `if bm is None:`", where=astq.loc(cc))
    hooks = _CCHooks()
    it = Interp(model, hooks)
    ts = Obj("ts", getitem_hook=lambda i, o, idx, n, f: nf.sym(f"ts[{idx}]", True))
    y0 = Obj("y0", attrs={"dtype": "dtype", "device": "device"})
    env = {"bm": None, "method": method, "ts": ts, "y0": y0}
    # the size lists collected earlier in check_contract, whatever they are called: every local of check_contract read
    # (and not first written) inside the block is a list of sizes here
    written = set()
    m = cc.module
    mod_names = set(m.imports) | set(m.classes) | set(m.functions) | set(m.assigns) | set(dir(__builtins__) if not isinstance(__builtins__, dict) else __builtins__)
    for n in ast.walk(node):
        if isinstance(n, ast.Name) and isinstance(n.ctx, ast.Store):
            written.add(n.id)
    for n in ast.walk(node):
        if isinstance(n, ast.Name) and isinstance(n.ctx, ast.Load) and n.id not in env and n.id not in written \
                and n.id not in cc.params and n.id not in mod_names:
            env[n.id] = [Fraction(2), Fraction(3)]
    it.exec_stmt(node, env, cc)
    if len(hooks.bm_kwargs) != 1:
        raise AnalysisError("`if bm is None:` does not construct exactly one BrownianInterval", where=astq.loc(cc, node))
    return hooks.bm_kwargs[0].get("levy_area_approximation"), node


def r19_5(ctx):
    rep, model = ctx.rep, ctx.model
    rep.rule("R19.5", "default method tables total over 2x4, documented, and accepted with the default Levy mode; solver "
                      "classes define the five abstract attributes")
    dom = _dom(ctx)
    tbl = solvers.select_table(model, dom)
    cc = model.func(SDEINT, "check_contract")
    for st in dom.sde_types.values():
        for nt in dom.noise_types.values():
            construct = f"{cc.key}::R19.5::default::{st}/{nt}"
            try:
                m, node = default_method(model, st, nt)
            except SimRaise as e:
                rep.fail("R19.5", astq.loc(cc), construct, f"no default method for ({st}, {nt}): {e.exc_name}")
                continue
            # "the documented default for the SDE and noise type": the default may not depend on anything else -- not on
            # which Brownian motion was supplied
            for blevy in dom.levy.values():
                try:
                    mb, _ = default_method(model, st, nt, bm_levy=blevy)
                except SimRaise as e:
                    mb = f"<raises {e.exc_name}>"
                rep.check(mb == m, "R19.5", astq.loc(cc), construct + f"::bm-levy={blevy}",
                          f"with a supplied Brownian motion whose Levy-area mode is {blevy!r} the default method for ({st}, {nt}) "
                          f"becomes {mb}, not {m}: an unsupported (default method, Levy mode) cell would be integrated with "
                          f"another method instead of being refused", f"default {m} whatever bm is")
            lv, node2 = default_levy(model, m)
            res = evaluate_config(model, dom, tbl, m, st, nt, lv)
            ok = m == DEFAULT_METHOD.get((st, nt)) and res[0] == "accept"
            rep.check(ok, "R19.5", astq.loc(cc, node), construct,
                      f"default for ({st}, {nt}) is method={m} with default Levy mode {lv}: "
                      f"{'documented default is ' + str(DEFAULT_METHOD.get((st, nt))) if m != DEFAULT_METHOD.get((st, nt)) else 'rejected: ' + str(res[1:])}",
                      f"default {m} (Levy {lv}) accepted")
    # default Levy mode for every method is one the solver accepts (when any noise type is accepted)
    for mname in dom.methods.values():
        lv, node2 = default_levy(model, mname)
        for st in dom.sde_types.values():
            accepted_any = [nt for nt in dom.noise_types.values()
                            if any(evaluate_config(model, dom, tbl, mname, st, nt, l)[0] == "accept" for l in dom.levy.values())]
            for nt in accepted_any:
                res = evaluate_config(model, dom, tbl, mname, st, nt, lv)
                rep.check(res[0] == "accept", "R19.5", astq.loc(cc, node2), f"{cc.key}::R19.5::default-levy::{mname}/{st}/{nt}",
                          f"with bm=None, method={mname} gets Levy mode {lv}, which its solver rejects for ({st}, {nt}): "
                          f"{res[1:]}", f"default Levy mode {lv} accepted")
    # adjoint defaults
    sel = model.func(ADJOINT, "_select_default_adjoint_method")
    rep.analysed(sel)
    amap = adjoint_noise_map(model, dom)
    for st in dom.sde_types.values():
        for nt in dom.noise_types.values():
            fwd_methods = [m for m in dom.methods.values()
                           if any(evaluate_config(model, dom, tbl, m, st, nt, l)[0] == "accept" for l in dom.levy.values())]
            for fm in fwd_methods:
                construct = f"{sel.key}::R19.5::adjoint-default::{st}/{nt}/{fm}"
                it = Interp(model, solvers.QuietHooks())
                try:
                    am = it.call_function(sel, [Obj("sde", attrs={"sde_type": st, "noise_type": nt}), fm, None], {})
                except SimRaise as e:
                    rep.fail("R19.5", astq.loc(sel), construct, f"no default adjoint method for ({st}, {nt}): {e.exc_name}")
                    continue
                lv, _ = default_levy(model, fm)
                res = evaluate_config(model, dom, tbl, am, st, amap[nt], lv, adjoint=True)
                rep.check(res[0] == "accept", "R19.5", astq.loc(sel), construct,
                          f"default adjoint method for forward ({st}, {nt}, method={fm}) is {am}, which refuses the adjoint "
                          f"SDE (noise type {amap[nt]}, Levy mode {lv}): {res[1:]}", f"default adjoint method {am} accepted")
    # abstract attributes
    classes, _ = solvers.solver_classes(model, dom)
    for c in classes:
        for attr in ("strong_order", "weak_order", "sde_type", "noise_types", "levy_area_approximations"):
            expr, owner = model.lookup_class_attr(c, attr)
            concrete = expr is not None and "abstract_attribute" not in ast.unparse(expr)
            if not concrete:
                init_sets = any(isinstance(n, ast.Attribute) and isinstance(n.ctx, ast.Store) and n.attr == attr
                                for k in model.mro(c) if "__init__" in k.methods for n in own_nodes(k.methods["__init__"].node))
                concrete = init_sets
            rep.check(concrete, "R19.5", f"{c.module.relpath}:{c.node.lineno}", f"{c.key}::R19.5::attr::{attr}",
                      f"solver class {c.name} does not define `{attr}`: instantiation fails with NotImplementedError "
                      f"instead of ValueError", "defined")
    ctx.floor("R19.5", 60)


def adjoint_noise_map(model, dom):
    """forward noise type -> adjoint noise type: AdjointSDE(forward) is constructed abstractly for each forward noise
    type and the `noise_type` its base-class constructor stores is read back."""
    cls = model.cls(ADJOINT_SDE, "AdjointSDE")
    out = {}
    for nt in dom.noise_types.values():
        it = Interp(model, solvers.QuietHooks())
        fwd = Obj("fwd", attrs={"noise_type": nt, "sde_type": dom.sde_types.get("stratonovich", "stratonovich")})
        try:
            obj = it.instantiate(cls, [fwd, [], []], {})
        except SimRaise as e:
            raise AnalysisError(f"AdjointSDE(forward sde with {nt} noise) raises {e.exc_name} at construction",
                                where=astq.loc(cls.methods["__init__"]))
        if "noise_type" not in obj.attrs:
            raise AnalysisError("AdjointSDE.__init__ no longer stores a noise_type", where=astq.loc(cls.methods["__init__"]))
        out[nt] = obj.attrs["noise_type"]
    return out


def r19_6(ctx):
    rep, model = ctx.rep, ctx.model
    rep.rule("R19.6", "adjoint SDE x solver: constructor refuses, or every SDE slot the solver uses is implemented or "
                      "explicitly stubbed by AdjointSDE")
    dom = _dom(ctx)
    tbl = solvers.select_table(model, dom)
    adj = model.cls(ADJOINT_SDE, "AdjointSDE")
    defined = set()
    for c in model.mro(adj):
        defined |= set(c.methods)
    init = adj.methods["__init__"]
    for n in own_nodes(init.node):
        if isinstance(n, ast.Attribute) and isinstance(n.ctx, ast.Store) and isinstance(n.value, ast.Name) \
                and n.value.id == init.params[0]:
            defined.add(n.attr)
    defined |= {"noise_type", "sde_type"}
    amap = adjoint_noise_map(model, dom)
    rep.check(set(amap.values()) <= set(dom.noise_types.values()) and len(amap) == len(dom.noise_types), "R19.6",
              astq.loc(init), f"{init.key}::R19.6::noise-map-total",
              f"the forward->adjoint noise-type map {amap} is not total over the noise types", "noise map total")
    classes, _ = solvers.solver_classes(model, dom)
    for c in classes:
        it = Interp(model, solvers.QuietHooks())
        st = it.getattr(ClassRef(c), "sde_type")
        refuses_all = True
        for nt in set(amap.values()):
            res = None
            for lv in dom.levy.values():
                sde = solvers.make_sde_obj(model, st, nt, adjoint=True)
                bm = solvers.make_bm_obj(lv, 1 if nt == dom.noise_types.get("scalar") else 3)
                try:
                    res = solvers.instantiate(model, c, sde, bm, {})
                    break
                except SimRaise as e:
                    if e.exc_name != "ValueError":
                        rep.fail("R19.6", f"{c.module.relpath}:{c.node.lineno}", f"{c.key}::R19.6::refusal-type::{nt}",
                                 f"{c.name} refuses an adjoint SDE with {e.exc_name}, not ValueError")
            if res is not None:
                refuses_all = False
        uses = set()
        for mname in ("step", "init_extra_solver_state"):
            for k in model.mro(c):
                for m in k.methods.values():
                    if m.name == mname or m.name.endswith("_step"):
                        for n in own_nodes(m.node):
                            if isinstance(n, ast.Attribute) and isinstance(n.value, ast.Attribute) \
                                    and n.value.attr == "sde" and isinstance(n.value.value, ast.Name) \
                                    and n.value.value.id == m.params[0]:
                                uses.add(n.attr)
        construct = f"{c.key}::R19.6::slots"
        if refuses_all:
            rep.ok("R19.6", f"{c.module.relpath}:{c.node.lineno}", construct, "constructor refuses every adjoint SDE")
            continue
        missing = sorted(uses - defined)
        rep.check(not missing, "R19.6", f"{c.module.relpath}:{c.node.lineno}", construct,
                  f"{c.name} accepts an adjoint SDE but uses SDE slot(s) {missing} that AdjointSDE neither implements nor "
                  f"stubs with an explicit error", f"uses {sorted(uses)}, all provided by AdjointSDE")
    ctx.floor("R19.6", 10)


def run(ctx):
    ctx.guard(r19_1)
    ctx.guard(r19_2)
    ctx.guard(r19_3)
    ctx.guard(r19_4)
    ctx.guard(r19_5)
    ctx.guard(r19_6)


# ------------------------------------------------------------------------------------------------ R19.7
class TObj(Obj):
    """Abstract tensor that only knows its shape (for the validation code, which only looks at shapes)."""

    def __init__(self, shape, name="tensor", requires_grad=False):
        super().__init__(name)
        self.shape = tuple(Fraction(s) for s in shape)
        sh = self.shape
        self.attrs.update({
            "dim": Intrinsic("dim", lambda it, a, k, n, f: Fraction(len(sh))),
            "size": Intrinsic("size", lambda it, a, k, n, f: _size(sh, a, n, f)),
            "shape": sh, "ndim": Fraction(len(sh)), "dtype": "dtype", "device": "device", "requires_grad": requires_grad,
            "ndimension": Intrinsic("ndimension", lambda it, a, k, n, f: Fraction(len(sh))),
            "numel": Intrinsic("numel", lambda it, a, k, n, f: Fraction(__import__("math").prod(int(x) for x in sh))),
            "new_zeros": Intrinsic("new_zeros", lambda it, a, k, n, f: TObj(k.get("size", a[0] if a else ()), "zeros")),
            "to": Intrinsic("to", lambda it, a, k, n, f: self),          # dtype / device conversions keep shape and values
            "float": Intrinsic("float", lambda it, a, k, n, f: self), "double": Intrinsic("double", lambda it, a, k, n, f: self),
        })


class TSeq(TObj):
    """A 1-D tensor with concrete (exact rational or boolean) entries: indexable, sliceable and iterable like the list
    of its values, and with the element-wise semantics of the vectorised idioms (comparison, difference, any / all)."""

    def __init__(self, values, requires_grad=False):
        super().__init__((len(values),), "ts-tensor", requires_grad)
        vals = [v if isinstance(v, bool) else Fraction(v) for v in values]
        self.vals = vals

        def getitem(it, obj, idx, node, fi):
            r = vals[idx]
            return TSeq(r, requires_grad) if isinstance(idx, slice) else r
        self.getitem_hook = getitem
        self.attrs.update({
            "any": Intrinsic("any", lambda it, a, k, n, f: any(bool(v) for v in vals)),
            "all": Intrinsic("all", lambda it, a, k, n, f: all(bool(v) for v in vals)),
            "tolist": Intrinsic("tolist", lambda it, a, k, n, f: list(vals)),
            "diff": Intrinsic("diff", lambda it, a, k, n, f: TSeq([b - a_ for a_, b in zip(vals[:-1], vals[1:])])),
            "__len__": Intrinsic("len", lambda it, a, k, n, f: Fraction(len(vals))),
            "min": Intrinsic("min", lambda it, a, k, n, f: min(vals)),
            "max": Intrinsic("max", lambda it, a, k, n, f: max(vals)),
        })

    def sim_iter(self):
        return list(self.vals)

    def _zip(self, other):
        if isinstance(other, TSeq):
            if len(other.vals) != len(self.vals):
                raise AnalysisError("element-wise operation on 1-D tensors of different lengths")
            return list(zip(self.vals, other.vals))
        if isinstance(other, (Fraction, int, float)) and not isinstance(other, bool):
            return [(v, Fraction(other)) for v in self.vals]
        return None

    def sim_compare(self, op, l, r):
        flip = not isinstance(l, TSeq)
        pairs = (r if flip else l)._zip(l if flip else r)
        if pairs is None:
            return NotImplemented
        if flip:
            pairs = [(b, a) for a, b in pairs]
        table = {ast.Lt: lambda a, b: a < b, ast.LtE: lambda a, b: a <= b, ast.Gt: lambda a, b: a > b,
                 ast.GtE: lambda a, b: a >= b, ast.Eq: lambda a, b: a == b, ast.NotEq: lambda a, b: a != b}
        fn = table.get(type(op))
        if fn is None:
            return NotImplemented
        return TSeq([fn(a, b) for a, b in pairs])

    def sim_binop(self, op, l, r):
        flip = not isinstance(l, TSeq)
        pairs = (r if flip else l)._zip(l if flip else r)
        if pairs is None:
            return NotImplemented
        if flip:
            pairs = [(b, a) for a, b in pairs]
        if isinstance(op, ast.Sub):
            return TSeq([a - b for a, b in pairs])
        if isinstance(op, ast.Add):
            return TSeq([a + b for a, b in pairs])
        return NotImplemented


def _size(sh, a, node, fi):
    if not a:
        return sh
    i = int(a[0])
    if not -len(sh) <= i < len(sh):
        raise SimRaise("IndexError", f"Dimension out of range (size({i}) of a {len(sh)}-d tensor)", node, fi)
    return sh[i]


class ContractHooks(solvers.QuietHooks):
    def __init__(self):
        self.default_bm = []

    def external_call(self, interp, dotted, args, kwargs, node, fi):
        if dotted == "torch.is_tensor":
            return isinstance(args[0], TObj)
        if dotted == "torch.cat":
            parts = list(args[0])
            dim = int(kwargs.get("dim", args[1] if len(args) > 1 else 0))
            sh = list(parts[0].shape)
            sh[dim] = sum(p.shape[dim] for p in parts)
            return TObj(sh, "cat")
        if dotted == "torch.randn":
            return TObj([a for a in args if isinstance(a, Fraction)], "randn")
        if dotted == "torch.tensor":
            v = args[0]
            if isinstance(v, (list, tuple)) and all(isinstance(x, (Fraction, int)) and not isinstance(x, bool) for x in v):
                return TSeq(list(v))
            if isinstance(v, (list, tuple)) and all((isinstance(x, (Fraction, int)) and not isinstance(x, bool)) or
                                                    (isinstance(x, TObj) and getattr(x, "value", None) is not None) for x in v):
                # torch.tensor copies the *values* of 0-d tensor entries into a new leaf: requires_grad is not inherited
                return TSeq([x.value if isinstance(x, TObj) else x for x in v])
            return v
        if dotted in ("torch.all", "torch.any") and len(args) == 1 and isinstance(args[0], TSeq):
            return (all if dotted.endswith("all") else any)(bool(x) for x in args[0].vals)
        if dotted == "torch.diff" and args and isinstance(args[0], TSeq):
            return TSeq([b - a for a, b in zip(args[0].vals[:-1], args[0].vals[1:])])
        if dotted == "warnings.warn":
            return None
        return solvers.QuietHooks.external_call(self, interp, dotted, args, kwargs, node, fi)

    def isinstance(self, interp, obj, classes):
        for c in classes:
            if isinstance(c, ClassRef) and c.cls.name == "AdjointSDE":
                return False
        return NotImplemented

    def on_call(self, interp, callee, args, kwargs, node, fi):
        from ..interp import BoundMethod, Closure
        if isinstance(callee, Closure) and callee.fi is not None and callee.fi.name == "select" \
                and callee.fi.module.relpath.endswith("methods/__init__.py"):
            if not hasattr(self, "selected"):
                self.selected = []
            self.selected.append(kwargs.get("method", args[0] if args else None))
            return NotImplemented
        if isinstance(callee, ClassRef) and callee.cls.name == "BrownianInterval":
            self.default_bm.append(dict(kwargs))
            return Obj("default-bm", attrs={"levy_area_approximation": kwargs.get("levy_area_approximation"),
                                            "shape": kwargs.get("size")})
        if isinstance(callee, BoundMethod) and callee.fi.name in ("integrate", "init_extra_solver_state"):
            # validation is over: the solver has been constructed
            self.integration_call = (callee.fi.name, list(args), dict(kwargs))
            self.solver = callee.self_obj
            raise SimRaise("_IntegrationStarts", "validation phase passed", node, fi)
        if isinstance(callee, BoundMethod) and callee.fi.cls is not None and callee.fi.cls.name == "SDELogqp" \
                and callee.fi.name != "__init__":
            # shape semantics of the logqp wrapper (its values are C18's business): one extra state channel
            y = args[1]
            base = callee.self_obj.attrs.get("_base_sde")
            gsh = interp.call(base.attrs["g"], [args[0], y], {}).shape
            fsh = (y.shape[0], y.shape[1])
            g_aug = (gsh[0], gsh[1] + 1) + tuple(gsh[2:])
            nm = callee.fi.name
            if nm.startswith("f_and_g"):
                return (TObj(fsh, "logqp-f"), TObj(g_aug, "logqp-g"))
            if nm.startswith("f_"):
                return TObj(fsh, "logqp-f")
            if nm.startswith("g_"):
                return TObj(g_aug, "logqp-g")
        return NotImplemented


def make_user_sde(noise_type="diagonal", sde_type="ito", B=4, d=3, m=3, methods=("f", "g"), f_shape=None, g_shape=None,
                  drop_attrs=()):
    if noise_type == "diagonal":
        gs = (B, d)
    else:
        gs = (B, d, m)
    fs = f_shape or (B, d)
    gs = g_shape or gs
    attrs = {"noise_type": noise_type, "sde_type": sde_type}
    table = {
        "f": lambda it, a, k, n, f: TObj(fs, "f-out"),
        "g": lambda it, a, k, n, f: TObj(gs, "g-out"),
        "h": lambda it, a, k, n, f: TObj(fs, "h-out"),
        "f_and_g": lambda it, a, k, n, f: (TObj(fs, "f-out"), TObj(gs, "g-out")),
        "g_prod": lambda it, a, k, n, f: TObj(fs, "gprod-out"),
        "f_and_g_prod": lambda it, a, k, n, f: (TObj(fs, "f-out"), TObj(fs, "gprod-out")),
    }
    for name in methods:
        attrs[name] = Intrinsic(f"user.{name}", table[name])
    for a in drop_attrs:
        attrs.pop(a, None)
    return Obj("user-sde", attrs=attrs)


def eval_check_contract(model, sde=None, y0=None, ts=None, bm="given", method=None, adaptive=False, options=None,
                        names=None, logqp=False, m=3, B=4, dt=None, entry=(SDEINT, "sdeint"), levy="space-time",
                        hooks=None, extra_kw=None):
    """Abstractly evaluate the whole validation phase of sdeint / sdeint_adjoint on shape-only tensors: check_contract,
    assert_no_grad, methods.select and the solver's constructor chain run for real; integration itself is cut off."""
    fi = model.func(*entry)
    hooks = hooks or ContractHooks()
    it = Interp(model, hooks)
    sde = sde or make_user_sde()
    y0 = TObj((4, 3), "y0") if y0 is None else y0
    ts = [Fraction(0), Fraction(1, 2), Fraction(1)] if ts is None else ts
    if bm == "given":
        bm = Obj("bm", attrs={"shape": (Fraction(B), Fraction(m)), "levy_area_approximation": levy})
    kw = dict(sde=sde, y0=y0, ts=ts, bm=bm, method=method, adaptive=adaptive, options=options, names=names, logqp=logqp,
              dt=Fraction(1, 100) if dt is None else dt)
    kw.update(extra_kw or {})
    try:
        out = it.call_function(fi, [], kw)
        return ("ok", out, hooks)
    except SimRaise as e:
        if e.exc_name == "_IntegrationStarts":
            return ("ok", None, hooks)
        return ("raise", e.exc_name, e.message)


def _scalar_time(value, requires_grad):
    t = TObj((), "scalar-time", requires_grad=requires_grad)
    t.value = Fraction(value)
    return t


def r19_7(ctx):
    rep, model = ctx.rep, ctx.model
    rep.rule("R19.7", "validation phase of sdeint (check_contract, assert_no_grad, methods.select, solver constructor) "
                      "evaluated abstractly on shape-only tensors: well-formed inputs reach integration; every class of "
                      "malformed argument or unsupported combination raises ValueError before it")
    cc = model.func(SDEINT, "check_contract")
    rep.analysed(cc)
    good = [
        ("diagonal f,g", dict()),
        ("general f,g", dict(sde=make_user_sde("general"))),
        ("scalar f,g, one channel", dict(sde=make_user_sde("scalar", m=1), m=1)),
        ("additive f_and_g", dict(sde=make_user_sde("additive", methods=("f_and_g",)))),
        ("general f, g_prod with bm", dict(sde=make_user_sde("general", methods=("f", "g_prod")))),
        ("f_and_g_prod with bm", dict(sde=make_user_sde("general", methods=("f_and_g_prod",)))),
        ("bm None", dict(bm=None)),
        ("ts tuple", dict(ts=(Fraction(0), Fraction(1)))),
        ("stratonovich", dict(sde=make_user_sde("diagonal", "stratonovich"))),
        ("logqp, default bm", dict(sde=make_user_sde("diagonal", methods=("f", "g", "h")), logqp=True, bm=None)),
        ("logqp, general noise, bm given", dict(sde=make_user_sde("general", methods=("f", "g", "h")), logqp=True)),
        ("explicit method", dict(method="euler")),
        ("ts a tensor", dict(ts=TSeq((0, 1, 2)))),
        ("srk with space-time Levy area", dict(method="srk")),
        ("log_ode with Foster area", dict(sde=make_user_sde("general", "stratonovich"), method="log_ode", levy="foster")),
    ]
    for name, kw in good:
        r = eval_check_contract(model, **kw)
        rep.check(r[0] == "ok", "R19.7", astq.loc(cc), f"{cc.key}::R19.7::accepts::{name}",
                  f"well-formed arguments ({name}) are rejected with {r[1:] if r[0] != 'ok' else ''}",
                  "accepted")
    bad = [
        ("ts not strictly increasing (repeated time)", dict(ts=[Fraction(0), Fraction(1), Fraction(1)])),
        ("ts decreasing", dict(ts=[Fraction(1), Fraction(0)])),
        ("ts decreasing in the middle", dict(ts=[Fraction(0), Fraction(2), Fraction(1), Fraction(3)])),
        ("ts a string", dict(ts="0,1")),
        ("ts list of strings", dict(ts=["a", "b"])),
        ("y0 not a tensor", dict(y0=Fraction(1))),
        ("y0 one-dimensional", dict(y0=TObj((4,), "y0"))),
        ("y0 three-dimensional", dict(y0=TObj((4, 3, 1), "y0"))),
        ("bm of rank 1", dict(bm=Obj("bm", attrs={"shape": (Fraction(4),), "levy_area_approximation": "none"}))),
        ("bm of rank 3", dict(bm=Obj("bm", attrs={"shape": (Fraction(4), Fraction(3), Fraction(1)), "levy_area_approximation": "none"}))),
        ("bm batch size differs from y0", dict(B=5)),
        ("drift batch size differs", dict(sde=make_user_sde(f_shape=(5, 3)))),
        ("drift state size differs", dict(sde=make_user_sde(f_shape=(4, 2)))),
        ("drift of rank 3", dict(sde=make_user_sde(f_shape=(4, 3, 1)))),
        ("diagonal diffusion of rank 3", dict(sde=make_user_sde(g_shape=(4, 3, 3)))),
        ("general diffusion of rank 2", dict(sde=make_user_sde("general", g_shape=(4, 3)))),
        ("diffusion state size differs", dict(sde=make_user_sde("general", g_shape=(4, 2, 3)))),
        ("diffusion batch size differs", dict(sde=make_user_sde("general", g_shape=(5, 3, 3)))),
        ("diagonal diffusion batch size differs", dict(sde=make_user_sde(g_shape=(5, 3)))),
        ("diagonal diffusion state size differs", dict(sde=make_user_sde(g_shape=(4, 2)), m=2)),
        ("f_and_g drift state size differs", dict(sde=make_user_sde("general", methods=("f_and_g",), f_shape=(4, 2)))),
        ("diffusion only through g_prod, no drift", dict(sde=make_user_sde("general", methods=("g_prod",)))),
        ("drift only through f_and_g_prod is fine but diffusion-vector product has the wrong batch size",
         dict(sde=make_user_sde("general", methods=("f_and_g_prod",), f_shape=(5, 3)))),
        ("diffusion noise size differs from bm", dict(sde=make_user_sde("general", g_shape=(4, 3, 2)))),
        ("diagonal noise size differs from bm", dict(m=2)),
        ("scalar noise with two channels", dict(sde=make_user_sde("scalar", g_shape=(4, 3, 2)), m=2)),
        ("no drift", dict(sde=make_user_sde(methods=("g",)))),
        ("no diffusion", dict(sde=make_user_sde(methods=("f",)))),
        ("no methods at all", dict(sde=make_user_sde(methods=()))),
        ("g_prod only, no bm: noise size unknown", dict(sde=make_user_sde("general", methods=("f", "g_prod")), bm=None)),
        ("unknown noise_type", dict(sde=make_user_sde("diagonal", drop_attrs=()).__class__("user", attrs={"noise_type": "weird", "sde_type": "ito"}))),
        ("unknown sde_type", dict(sde=Obj("user", attrs={"noise_type": "diagonal", "sde_type": "weird"}))),
        ("missing noise_type", dict(sde=Obj("user", attrs={"sde_type": "ito"}))),
        ("missing sde_type", dict(sde=Obj("user", attrs={"noise_type": "diagonal"}))),
        ("unknown method", dict(method="runge")),
        ("logqp without prior drift", dict(sde=make_user_sde(methods=("f", "g")), logqp=True)),
        ("ts requires grad", dict(ts=TSeq((0, 1, 2), requires_grad=True))),
        ("dt requires grad", dict(dt=TObj((), "dt", requires_grad=True))),
        # a time that requires grad must not slip through inside a list / tuple either (converting the list to a fresh
        # tensor drops the flag before assert_no_grad looks)
        ("list ts with a 0-d tensor entry that requires grad",
         dict(ts=[Fraction(0), Fraction(1, 2), _scalar_time(1, True)])),
        ("tuple ts with a 0-d tensor entry that requires grad",
         dict(ts=(Fraction(0), _scalar_time(1, True)))),
        ("method of the other SDE type", dict(method="midpoint")),
        ("srk with general noise", dict(sde=make_user_sde("general"), method="srk")),
        ("srk without space-time Levy area", dict(method="srk", levy="none")),
        ("log_ode without Levy area", dict(sde=make_user_sde("general", "stratonovich"), method="log_ode", levy="space-time")),
        ("adjoint-only method as forward method", dict(sde=make_user_sde("general", "stratonovich"), method="adjoint_reversible_heun")),
        ("scalar noise, Brownian motion with two channels and matching diffusion", dict(sde=make_user_sde("scalar", g_shape=(4, 3, 2)), m=2)),
    ]
    for name, kw in bad:
        r = eval_check_contract(model, **kw)
        ok = r[0] == "raise" and r[1] == "ValueError"
        rep.check(ok, "R19.7", astq.loc(cc), f"{cc.key}::R19.7::rejects::{name}",
                  f"malformed argument ({name}) is " + ("accepted: nothing rejects it before integration" if r[0] == "ok"
                                                        else f"rejected with {r[1]} instead of ValueError: {r[2][:80]}"),
                  "raises ValueError")
    ctx.floor("R19.7", 45)


_old_run = run


def run(ctx):
    _old_run(ctx)
    ctx.guard(r19_7)


# ------------------------------------------------------------------------------------------------ R19.8
def r19_8(ctx):
    rep, model = ctx.rep, ctx.model
    rep.rule("R19.8", "an explicitly requested adjoint method is what the backward pass is given (never silently "
                      "replaced), for every (method, adjoint_method) pair; it reaches Function.apply unchanged")
    dom = _dom(ctx)
    sel = model.func(ADJOINT, "_select_default_adjoint_method")
    rep.analysed(sel)
    for st in dom.sde_types.values():
        for m in dom.methods.values():
            for am in list(dom.methods.values()) + ["<unknown-method>"]:
                it = Interp(model, solvers.QuietHooks())
                try:
                    got = it.call_function(sel, [Obj("sde", attrs={"sde_type": st, "noise_type": "diagonal"}), m, am], {})
                except SimRaise as e:
                    got = ("raise", e.exc_name)
                rep.check(got == am, "R19.8", astq.loc(sel), f"{sel.key}::R19.8::{st}/{m}/{am}",
                          f"with method={m} the explicitly requested adjoint_method={am} is replaced by `{got}`: an "
                          f"unsupported adjoint method would no longer be refused when the backward pass starts, and a "
                          f"supported one would be silently ignored", "explicit adjoint_method honoured")
    # sdeint_adjoint hands the selected method to the Function (role binding is R09.2); here: the value stored by forward
    fwd = model.func(ADJOINT, "_SdeintAdjointMethod.forward")
    stores = [n for n in own_nodes(fwd.node) if isinstance(n, ast.Assign) and ast.unparse(n.targets[0]) == "ctx.adjoint_method"]
    ok = len(stores) == 1 and ast.unparse(stores[0].value) == "adjoint_method"
    rep.check(ok, "R19.8", astq.loc(fwd), f"{fwd.key}::R19.8::ctx-adjoint-method",
              "forward does not store its `adjoint_method` argument as ctx.adjoint_method", "ctx.adjoint_method = adjoint_method")
    bwd = model.func(ADJOINT, "_SdeintAdjointMethod.backward")
    sels = [c for c in astq.calls(bwd) if astq.call_name(c).endswith("methods.select")]
    ok = len(sels) == 1 and ast.unparse(astq.kwarg(sels[0], "method") or sels[0].args[0]) == "ctx.adjoint_method"
    rep.check(ok, "R19.8", astq.loc(bwd), f"{bwd.key}::R19.8::backward-select",
              "backward does not select its solver from ctx.adjoint_method", "methods.select(method=ctx.adjoint_method, ...)")
    ctx.floor("R19.8", 150)


_run_c19c = run


def run(ctx):
    _run_c19c(ctx)
    ctx.guard(r19_8)
