"""C06 -- seeded reproducibility; query-order independence in dyadic-tree mode (DESIGN.md section C06)."""
import ast
from fractions import Fraction

from .. import astq, nf
from ..errors import AnalysisError
from ..interp import ClassRef, Interp, Intrinsic, Obj, SimRaise
from ..model import own_nodes
from ..nf import Rat
from . import brownian_kit as bk
from .c04 import eval_init, eval_split_exact

BI, DERIVED = bk.BI, bk.DERIVED

EXPLANATION = (
    "Abstract evaluation of the split and constructor code (ast only) with the seed sequence, the quantiser and the "
    "child constructor opaque. R06.1 seed provenance: the seed sequence of a node is built from exactly (top entropy, "
    "(2*parent key + is-right, parent depth + 1), pool size); the top level from (entropy, pool size); no query "
    "argument, counter, id, hash or clock occurs in any seed expression. R06.2 dyadic non-interference: with "
    "halfway_tree the argument of every exact split is free of the requested point (which only selects the child "
    "through comparisons). R06.3 quantisation: every stored start / end / midpoint and both arguments of the tree "
    "search are images of the quantiser, and a child's end is the same quantised value as its parent's midpoint. "
    "R06.4: both call sites of the history-dependent dependency-tree refinement are guarded by `not halfway_tree`. "
    "R06.5: BrownianTree forwards entropy, tol, pool_size, halfway_tree=True and W = w1 - w0. Not decided: that "
    "different entropies give different paths (statistical)."
)

FORBIDDEN_IN_SEEDS = ("m", "ta", "tb", "midway", "<id()>", "<hash()>")


def r06_1(ctx):
    rep, model = ctx.rep, ctx.model
    rep.rule("R06.1", "seed provenance: SeedSequence(entropy=top entropy, spawn_key=(2K + is_right, D + 1), "
                      "pool_size=top pool size); nothing else flows into a seed")
    se = model.func(BI, "_Interval._split_exact")
    rep.analysed(se)
    K, D = nf.sym("K", True), nf.sym("D", True)
    keys = {}
    for is_left in (True, False):
        node, hooks = eval_split_exact(model, is_left)
        if len(hooks.seedseq_calls) != 1:
            rep.fail("R06.1", astq.loc(se), f"{se.key}::R06.1::one-sequence",
                     f"a split builds {len(hooks.seedseq_calls)} seed sequences (expected 1)")
            continue
        kw, node_ast, fi = hooks.seedseq_calls[0]
        ent, spawn, pool = kw.get("entropy"), kw.get("spawn_key"), kw.get("pool_size")
        want_key = 2 * K + (0 if is_left else 1)
        ok = isinstance(ent, Rat) and nf.equal(ent, nf.sym("ENTROPY", True)) \
            and isinstance(spawn, tuple) and len(spawn) == 2 and nf.equal(spawn[0], want_key) \
            and nf.equal(spawn[1], D + 1) and isinstance(pool, Rat) and nf.equal(pool, nf.sym("POOL", True))
        side = "left" if is_left else "right"
        rep.check(ok, "R06.1", astq.loc(fi, node_ast), f"{se.key}::R06.1::node-sequence::{side}",
                  f"the seed sequence of a {side} child's split is SeedSequence(entropy={ent}, spawn_key={spawn}, "
                  f"pool_size={pool}); it must be (top entropy, (2*parent key + {0 if is_left else 1}, parent depth + 1), "
                  f"top pool size) so that seeds depend on the entropy and the tree position only",
                  "entropy, (2K + is_right, D + 1), pool size")
        keys[is_left] = spawn
        atoms = set()
        for v in (ent, pool) + (tuple(spawn) if isinstance(spawn, tuple) else ()):
            if isinstance(v, Rat):
                atoms |= {a[1] for a in nf.all_atoms(v) if a[0] in ("s", "t")}
        bad = sorted(atoms & set(FORBIDDEN_IN_SEEDS))
        rep.check(not bad, "R06.1", astq.loc(fi, node_ast), f"{se.key}::R06.1::no-query-flow::{side}",
                  f"the split point / query argument(s) {bad} flow into the seed sequence: the path would depend on what "
                  f"was queried", "no query argument in the seeds")
    if len(keys) == 2:
        same = isinstance(keys[True], tuple) and isinstance(keys[False], tuple) and \
            all(nf.equal(a, b) for a, b in zip(keys[True], keys[False]))
        rep.check(not same, "R06.1", astq.loc(se), f"{se.key}::R06.1::left-right-distinct",
                  "left and right children get the same spawn key: sibling subtrees would share their noise",
                  "left / right keys differ")
    # top level
    r = eval_init(model)
    calls = r["hooks"].seedseq_calls
    ok = len(calls) == 1 and nf.equal(calls[0][0].get("entropy"), nf.sym("ENTROPY", True)) \
        and nf.equal(calls[0][0].get("pool_size"), nf.sym("POOL", True)) and not calls[0][0].get("spawn_key")
    rep.check(ok, "R06.1", astq.loc(r["fi"]), f"{r['fi'].key}::R06.1::top-sequence",
              f"top-level seed sequence is built from {[{k: str(v) for k, v in c[0].items()} for c in calls]}; expected "
              f"(entropy, pool_size)", "SeedSequence(entropy, pool_size)")
    # "for all entropies": the zero seed is a seed like any other; only `None` may be replaced by a random draw
    for label, ent, want in (("entropy=0", Fraction(0), Fraction(0)), ("entropy=None", None, nf.sym("RANDOM_ENTROPY", True))):
        rz = eval_init(model, entropy=ent)
        cz = rz["hooks"].seedseq_calls
        got = cz[0][0].get("entropy") if len(cz) == 1 else None
        stored = rz["me"].attrs.get("_entropy")
        ok = got is not None and nf.equal(got, want) and stored is not None and nf.equal(stored, want)
        rep.check(ok, "R06.1", astq.loc(rz["fi"]), f"{rz['fi'].key}::R06.1::top-sequence::{label}",
                  f"with {label} the top-level seed sequence uses entropy `{got}` and the object stores `{stored}` (expected "
                  f"`{want}`): a legal fixed seed would not fix the path", "the given entropy is used as it is")
    # the root's own key / depth
    bcls = model.cls(BI, "BrownianInterval")
    root = Obj("root", cls=bcls)
    it = Interp(model, bk.BrownianHooks())
    m = model.lookup_method(bcls, "_set_spawn_key_and_depth")
    it.call_function(m, [root], {})
    ok = root.attrs.get("_spawn_key") == 0 and root.attrs.get("_depth") == 0
    rep.check(ok, "R06.1", astq.loc(m), f"{m.key}::R06.1::root-key",
              f"the root's (spawn key, depth) = ({root.attrs.get('_spawn_key')}, {root.attrs.get('_depth')}), not "
              f"constants", "root key (0, 0)")
    # syntactic: no clock / id / hash / counter anywhere in the split routine
    for fn in (se, model.func(BI, "_Interval._set_spawn_key_and_depth")):
        for c in astq.calls(fn):
            nm = astq.call_name(c)
            bad = nm in ("id", "hash") or nm.split(".")[0] in ("time", "random", "os", "uuid", "datetime")
            if bad:
                rep.fail("R06.1", astq.loc(fn, c), f"{fn.key}::R06.1::impure::{nm}",
                         f"`{ast.unparse(c)}` in the seed derivation is not a function of (entropy, tree position)")
    ctx.floor("R06.1", 6)


def r06_6(ctx):
    """Order independence of the seeds *at the point of use*: a node is split by the repository's own _split_exact
    (abstractly), then the noise of its two children -- the bridge noises of the value function and the Levy-area
    noise -- is requested in both orders.  Every seed that reaches the normal generator must be the same canonical
    value in both orders (SeedSequence.spawn is modelled as the stateful operation it is) and a pure function of
    (entropy, tree position, pool size)."""
    rep, model = ctx.rep, ctx.model
    rep.rule("R06.6", "seeds at the point of use are the same whichever child's noise is requested first, and functions of "
                      "(entropy, tree position, pool size) only")
    from .c04 import eval_split_exact
    icls = model.cls(BI, "_Interval")
    rl = model.func(BI, "_Interval._randn_levy")
    rep.analysed(rl)
    results = {}
    for order in (("left", "right"), ("right", "left")):
        node, hooks0 = eval_split_exact(model, True)
        kids = {"left": node.attrs.get("_left_child"), "right": node.attrs.get("_right_child")}
        if not all(isinstance(k, Obj) for k in kids.values()):
            raise AnalysisError("_split_exact no longer stores two child nodes in _left_child / _right_child",
                                where=astq.loc(model.func(BI, "_Interval._split_exact")))
        seen = {}
        for side in order:
            hk = bk.BrownianHooks()
            it = Interp(model, hk)
            it.call_function(rl, [kids[side]], {})
            seen[side] = [Rat.lift(sd) for _, sd, _, _ in hk.randn_calls]
        results[order] = seen
    a, b = results[("left", "right")], results[("right", "left")]
    for side in ("left", "right"):
        same = len(a[side]) == len(b[side]) == 1 and nf.equal(a[side][0], b[side][0])
        rep.check(same, "R06.6", astq.loc(rl), f"{rl.key}::R06.6::order::{side}",
                  f"the Levy-area noise of the {side} child is seeded with `{[str(x) for x in a[side]]}` when the left child is "
                  f"asked first and with `{[str(x) for x in b[side]]}` when the right child is asked first: the value of an "
                  f"interval would depend on what was queried before", "same seed in both orders")
        atoms = set()
        for x in a[side] + b[side]:
            atoms |= {t[1] for t in nf.all_atoms(x) if t[0] in ("s", "t")}
        bad = sorted(atoms - {"ENTROPY", "POOL", "K", "D"})
        rep.check(not bad and all(_is_seed(x) for x in a[side] + b[side]), "R06.6", astq.loc(rl),
                  f"{rl.key}::R06.6::provenance::{side}",
                  f"the Levy-area seed of the {side} child `{[str(x) for x in a[side]]}` is not an output of the node's seed "
                  f"sequence depending on (entropy, tree position, pool size) only (other symbols: {bad})",
                  "seed = SEED[entropy, (key, depth), pool, n, i]")
    both = a["left"] + a["right"]
    rep.check(len(both) == 2 and not nf.equal(both[0], both[1]), "R06.6", astq.loc(rl), f"{rl.key}::R06.6::distinct",
              "left and right child share their Levy-area seed", "distinct seeds")
    ctx.floor("R06.6", 5)


def _is_seed(x):
    x = nf.reduce_sqrt(Rat.lift(x))
    if not (x.is_poly() and x.num.is_monomial()):
        return False
    (m, c), = x.num.terms.items()
    return c == 1 and len(m) == 1 and m[0][1] == 1 and m[0][0][0] == "fn" and m[0][0][1] == "SEED"


def r06_7(ctx):
    """Whatever __call__ itself remembers between calls must not change an answer.  Two queries with different raw end
    points that quantise to the same grid points are made one after the other on the same object (the tree search is
    mocked: both are covered by the same two stored pieces); the second answer must be what a fresh object, asked only the
    second query, returns.  (W and A depend on the grid points only; the merged H and hence U also on the raw end points,
    so an answer recalled for 'the same query after rounding' is not the answer to this query.)"""
    rep, model = ctx.rep, ctx.model
    rep.rule("R06.7", "two consecutive queries that coincide after rounding: the second answer equals that of a fresh object "
                      "(nothing remembered between calls alters a value)")
    call = model.func(BI, "BrownianInterval.__call__")
    rep.analysed(call)
    ta, tb = nf.sym("ta", True), nf.sym("tb", True)
    a1, b1, a2, b2 = (nf.sym(n, True) for n in ("ta_first", "tb_first", "ta_second", "tb_second"))
    table = [(a1, ta), (a2, ta), (b1, tb), (b2, tb)]
    F = Fraction
    for have_A in (False, True):
        order = {"T0": F(0), "ta": F(1), "u1": F(2), "tb": F(3), "T1": F(100), "TOL": F(1, 10), "DT": F(1, 7), "TREE_DT": F(1),
                 "ta_first": F(1) + F(1, 100), "ta_second": F(1) + F(2, 100), "tb_first": F(3) + F(1, 100), "tb_second": F(3) - F(1, 100)}
        def hooks():
            h = bk.BrownianHooks()
            h.ordering = dict(order)
            return h
        fresh = bk.eval_call(model, 2, True, have_A, hooks=hooks(), query=(a2, b2), round_table=table)
        first = bk.eval_call(model, 2, True, have_A, hooks=hooks(), query=(a1, b1), round_table=table)
        second = bk.eval_call(model, 2, True, have_A, hooks=hooks(), query=(a2, b2), round_table=table, me=first["me"])
        got, want = second["out"], fresh["out"]
        ok = isinstance(got, tuple) and isinstance(want, tuple) and len(got) == len(want) and \
            all(nf.equal(x, y) for x, y in zip(got, want))
        names = ["W", "U", "A"][:len(want)] if isinstance(want, tuple) else []
        diff = [n for n, x, y in zip(names, got, want) if not nf.equal(x, y)] if isinstance(got, tuple) and isinstance(want, tuple) and len(got) == len(want) else ["shape"]
        rep.check(ok, "R06.7", astq.loc(call), f"{call.key}::R06.7::same-grid-points::A={have_A}",
                  f"after a query (ta', tb') with the same quantised end points, bm(ta, tb, return_U=True{', return_A=True' if have_A else ''}) "
                  f"returns a different {' / '.join(diff)} than a fresh object does: the value of an interval depends on what was "
                  f"asked just before", "second answer == fresh answer")
    ctx.floor("R06.7", 2)


def r06_2(ctx):
    rep, model = ctx.rep, ctx.model
    rep.rule("R06.2", "dyadic mode: the requested point never flows into the point at which a node is split")
    sp = model.func(BI, "_Interval._split")
    rep.analysed(sp)
    icls = model.cls(BI, "_Interval")
    top, _ = bk.make_top(model, halfway=True)
    exact_args = []

    class H(bk.BrownianHooks):
        def on_call(self, interp, callee, args, kwargs, node, fi):
            from ..interp import BoundMethod
            if isinstance(callee, BoundMethod) and callee.fi.name == "_split_exact":
                a = args[0] if args else kwargs.get("midway")
                exact_args.append((a, node, callee.self_obj))
                recv = callee.self_obj
                recv.attrs["_midway"] = nf.fn("MID", recv.attrs["_start"], recv.attrs["_end"])
                for side in ("_left_child", "_right_child"):
                    recv.attrs[side] = Obj(side, cls=icls, attrs={"_top": top, "_start": nf.sym(side + ".start", True),
                                                                  "_end": nf.sym(side + ".end", True), "_midway": None})
                return None
            return bk.BrownianHooks.on_call(self, interp, callee, args, kwargs, node, fi)

    # scripted answers for the descent's tests `<requested point> >/< <node>._midway`, whatever the node variable is called:
    # first go right once, then stop
    queue = {">": [True, False], "<": [False, False, False]}

    class H2(H):
        def decide(self, interp, test, env, fi):
            if isinstance(test, ast.Compare) and len(test.ops) == 1 and isinstance(test.ops[0], (ast.Gt, ast.Lt)):
                l, r = test.left, test.comparators[0]
                k = None
                if isinstance(l, ast.Name) and isinstance(r, ast.Attribute) and r.attr == "_midway":
                    k = ">" if isinstance(test.ops[0], ast.Gt) else "<"            # point > node._midway
                elif isinstance(r, ast.Name) and isinstance(l, ast.Attribute) and l.attr == "_midway":
                    k = "<" if isinstance(test.ops[0], ast.Gt) else ">"            # node._midway < point
                if k is not None and queue[k]:
                    return queue[k].pop(0)
            return bk.BrownianHooks.decide(self, interp, test, env, fi)
    hooks = H2()
    # one representative ordering for every other test on the times (a guard that the midpoint lies strictly inside the
    # node, say): node [0, 8], children [0, 4] and [4, 8], a requested point in the right half
    hooks.ordering = {"a": Fraction(0), "b": Fraction(8), "QUERYPOINT": Fraction(5), "_left_child.start": Fraction(0),
                      "_left_child.end": Fraction(4), "_right_child.start": Fraction(4), "_right_child.end": Fraction(8)}
    it = Interp(model, hooks)
    node = Obj("node", cls=icls, attrs={"_top": top, "_start": nf.sym("a", True), "_end": nf.sym("b", True),
                                        "_midway": None})
    q = nf.sym("QUERYPOINT", True)
    it.call_function(sp, [node, q], {})
    if not exact_args:
        raise AnalysisError("dyadic `_split` made no exact split in the abstract run", where=astq.loc(sp))
    for a, n, recv in exact_args:
        flows = isinstance(a, Rat) and ("s", "QUERYPOINT") in nf.all_atoms(a)
        half = isinstance(a, Rat) and nf.equal(a, (recv.attrs["_start"] + recv.attrs["_end"]) * Fraction(1, 2))
        rep.check(not flows and half, "R06.2", astq.loc(sp, n), f"{sp.key}::R06.2::{astq.digest(n)}::{recv.name}",
                  f"in dyadic mode node `{recv.name}` is split at `{a}`: the split point must be the node's own midpoint "
                  f"(start + end)/2, independent of the requested point, or the tree (hence every value) depends on the "
                  f"query history", "split at (start + end)/2, independent of the query")
    rep.check(len(exact_args) >= 2, "R06.2", astq.loc(sp), f"{sp.key}::R06.2::descends",
              "the dyadic descent performs fewer than two splits when the requested point is not the first midpoint",
              "descends towards the requested point")
    ctx.floor("R06.2", 3)


def r06_3(ctx):
    rep, model = ctx.rep, ctx.model
    rep.rule("R06.3", "every stored start / end / midpoint and both tree-search arguments are quantised")
    icls = model.cls(BI, "_Interval")

    def rnd(it, a, k, n, f):
        return nf.fn("ROUND", a[0])
    top, _ = bk.make_top(model, extra={"_round": Intrinsic("_round", rnd)})
    it = Interp(model, bk.BrownianHooks())
    init = model.lookup_method(icls, "__init__")
    rep.analysed(init)
    node = Obj("n", cls=icls)
    s, e = nf.sym("S", True), nf.sym("E", True)
    it.call_function(init, [node], {"start": s, "end": e, "parent": None, "is_left": None, "top": top})
    ok = nf.equal(node.attrs.get("_start"), nf.fn("ROUND", s)) and nf.equal(node.attrs.get("_end"), nf.fn("ROUND", e))
    rep.check(ok, "R06.3", astq.loc(init), f"{init.key}::R06.3::endpoints",
              f"a node stores (start, end) = ({node.attrs.get('_start')}, {node.attrs.get('_end')}), not the quantised "
              f"end points: equality tests against quantised query times would miss", "start, end quantised")
    # split: midpoint quantised, and children meet exactly there
    se = model.func(BI, "_Interval._split_exact")
    parent = Obj("parent", attrs={"_spawn_key": nf.sym("K", True), "_depth": nf.sym("D", True)})
    nd = Obj("node", cls=icls, attrs={"_parent": parent, "_is_left": True, "_top": top, "_start": nf.sym("a", True),
                                      "_end": nf.sym("b", True), "_midway": None})
    m = nf.sym("m", True)
    it2 = Interp(model, bk.BrownianHooks())
    it2.call_function(se, [nd, m], {})
    rm = nf.fn("ROUND", m)
    lc, rc = nd.attrs.get("_left_child"), nd.attrs.get("_right_child")
    ok = isinstance(nd.attrs.get("_midway"), Rat) and nf.equal(nd.attrs["_midway"], rm) \
        and isinstance(lc, Obj) and isinstance(rc, Obj) and nf.equal(lc.attrs["_end"], rm) \
        and nf.equal(rc.attrs["_start"], rm)
    rep.check(ok, "R06.3", astq.loc(se), f"{se.key}::R06.3::midpoint",
              f"after a split midway={nd.attrs.get('_midway')}, left.end={lc.attrs.get('_end') if isinstance(lc, Obj) else lc}, "
              f"right.start={rc.attrs.get('_start') if isinstance(rc, Obj) else rc}: all three must be the same quantised "
              f"value", "midway == left.end == right.start == round(m)")
    ok2 = isinstance(lc, Obj) and isinstance(rc, Obj) and lc.attrs.get("_parent") is nd and rc.attrs.get("_parent") is nd \
        and lc.attrs.get("_is_left") is True and rc.attrs.get("_is_left") is False \
        and lc.attrs.get("_top") is top and rc.attrs.get("_top") is top
    rep.check(ok2, "R06.3", astq.loc(se), f"{se.key}::R06.3::children-links",
              "children are not linked as (parent=self, is_left=True/False, top=self._top)", "children linked correctly")
    # _loc quantises both arguments before searching
    loc = model.func(BI, "_Interval._loc")
    seen = []

    class H(bk.BrownianHooks):
        def on_call(self, interp, callee, args, kwargs, node, fi):
            from ..interp import BoundMethod
            if isinstance(callee, BoundMethod) and callee.fi.name == "_loc_inner":
                seen.append(args)
                return None
            return bk.BrownianHooks.on_call(self, interp, callee, args, kwargs, node, fi)

        def external_call(self, interp, dotted, args, kwargs, node, fi):
            if dotted == "trampoline.trampoline":
                return None
            return bk.BrownianHooks.external_call(self, interp, dotted, args, kwargs, node, fi)
    it3 = Interp(model, H())
    n3 = Obj("n3", cls=icls, attrs={"_top": top})
    ta, tb = nf.sym("ta", True), nf.sym("tb", True)
    it3.call_function(loc, [n3, ta, tb], {})
    ok = len(seen) == 1 and nf.equal(seen[0][0], nf.fn("ROUND", ta)) and nf.equal(seen[0][1], nf.fn("ROUND", tb))
    rep.check(ok, "R06.3", astq.loc(loc), f"{loc.key}::R06.3::search-args",
              f"the tree search receives {[[str(x) for x in a[:2]] for a in seen]}, not (round(ta), round(tb))",
              "search on quantised times")
    ctx.floor("R06.3", 4)


def _flatten(cond, pol):
    """Conjuncts known to hold given (cond, polarity)."""
    if isinstance(cond, ast.BoolOp) and isinstance(cond.op, ast.And) and pol:
        out = []
        for v in cond.values:
            out += _flatten(v, True)
        return out
    if isinstance(cond, ast.BoolOp) and isinstance(cond.op, ast.Or) and not pol:
        out = []
        for v in cond.values:
            out += _flatten(v, False)
        return out
    if isinstance(cond, ast.UnaryOp) and isinstance(cond.op, ast.Not):
        return _flatten(cond.operand, not pol)
    return [(ast.unparse(cond), pol)]


def r06_4(ctx):
    rep, model = ctx.rep, ctx.model
    rep.rule("R06.4", "history-dependent dependency-tree refinement is never reached in dyadic mode")
    n = 0
    for fi in model.functions.values():
        if isinstance(fi.node, ast.Lambda):
            continue
        for c in astq.calls(fi):
            if isinstance(c.func, ast.Attribute) and c.func.attr == "_create_dependency_tree":
                n += 1
                rep.analysed(fi)
                facts = []
                for cond, pol, kind in astq.path_conditions(fi, c):
                    facts += _flatten(cond, pol)
                ok = any(t.endswith("_halfway_tree") and p is False for t, p in facts)
                rep.check(ok, "R06.4", astq.loc(fi, c), f"{fi.key}::R06.4::{astq.digest(c)}",
                          f"`{ast.unparse(c)}` is reachable with halfway_tree=True (path facts: {facts}): the tree shape, "
                          f"hence the values, would depend on the query history in dyadic mode",
                          "guarded by not halfway_tree")
    ctx.floor("R06.4", 2)


def r06_5(ctx):
    rep, model = ctx.rep, ctx.model
    rep.rule("R06.5", "BrownianTree forwards entropy, tol, pool_size, halfway_tree=True, W = w1 - w0, t0, t1")
    tcls = model.cls(DERIVED, "BrownianTree")
    init = tcls.methods.get("__init__")
    if init is None:
        raise AnalysisError("BrownianTree.__init__ vanished", where=DERIVED)
    rep.analysed(init)
    bicls = model.cls(BI, "BrownianInterval")
    for w1_given in (True, False):
        made = []

        class H(bk.BrownianHooks):
            def on_call(self, interp, callee, args, kwargs, node, fi):
                if isinstance(callee, ClassRef) and callee.cls is bicls:
                    made.append((args, dict(kwargs)))
                    return Obj("interval")
                return bk.BrownianHooks.on_call(self, interp, callee, args, kwargs, node, fi)
        it = Interp(model, H())
        me = Obj("tree", cls=tcls)
        t0, t1 = nf.sym("t0", True), nf.sym("t1", True)
        w0, w1 = nf.sym("w0"), nf.sym("w1")
        ent, tol, pool = nf.sym("entropy", True), nf.sym("tol", True), nf.sym("pool", True)
        it.call_function(init, [me], {"t0": t0, "w0": w0, "t1": t1, "w1": w1 if w1_given else None, "entropy": ent,
                                      "tol": tol, "pool_size": pool})
        construct = f"{init.key}::R06.5::{'w1' if w1_given else 'no-w1'}"
        if len(made) != 1:
            rep.fail("R06.5", astq.loc(init), construct, f"BrownianTree builds {len(made)} BrownianInterval objects")
            continue
        a, kw = made[0]
        if a:
            names = [p for p in model.lookup_method(bicls, "__init__").params[1:]]
            kw.update(dict(zip(names, a)))
        okW = (nf.equal(kw.get("W"), w1 - w0) if w1_given else kw.get("W") is None)
        ok = nf.equal(kw.get("t0"), t0) and nf.equal(kw.get("t1"), t1) and nf.equal(kw.get("entropy"), ent) \
            and nf.equal(kw.get("tol"), tol) and nf.equal(kw.get("pool_size"), pool) \
            and kw.get("halfway_tree") is True and okW and kw.get("dt") is None
        rep.check(ok, "R06.5", astq.loc(init), construct,
                  f"BrownianTree constructs its interval with {{{', '.join(f'{k}={v}' for k, v in kw.items())}}}; it must "
                  f"forward t0, t1, entropy, tol, pool_size, halfway_tree=True and W = w1 - w0",
                  "forwards entropy / tol / pool_size / halfway_tree=True / W")
    ctx.floor("R06.5", 2)


def run(ctx):
    ctx.guard(r06_1)
    ctx.guard(r06_2)
    ctx.guard(r06_3)
    ctx.guard(r06_4)
    ctx.guard(r06_5)


# ------------------------------------------------------------------------------------------------ R06.2 (orderings)
def r06_2b(ctx):
    """Dyadic descent on representative rationals: node [0, 8], requested grid points 1..7."""
    rep, model = ctx.rep, ctx.model
    rep.rule("R06.2b", "dyadic mode on representative orderings: for every requested point the exact splits are the "
                       "successive dyadic midpoints of the nodes on the way to it, and nothing else")
    sp = model.func(BI, "_Interval._split")
    icls = model.cls(BI, "_Interval")
    grid = (1, 2, 3, 4, 5, 6, 7) if ctx.tier == "quick" else tuple(Fraction(k, 4) for k in range(1, 32))
    for q, tol in [(q, Fraction(1, 10 ** 6)) for q in grid] + [(1, Fraction(1, 2)), (3, Fraction(1, 2)),
                                                              (7, Fraction(1, 2)), (5, Fraction(1))]:
        top, _ = bk.make_top(model, halfway=True, extra={"_tol": tol})
        splits = []

        class H(bk.BrownianHooks):
            def on_call(self, interp, callee, args, kwargs, node, fi):
                from ..interp import BoundMethod
                if isinstance(callee, BoundMethod) and callee.fi.name == "_split_exact":
                    recv = callee.self_obj
                    m = args[0] if args else kwargs.get("midway")
                    splits.append((recv.attrs["_start"], recv.attrs["_end"], m))
                    recv.attrs["_midway"] = m
                    recv.attrs["_left_child"] = Obj("L", cls=icls, attrs={"_top": top, "_start": recv.attrs["_start"],
                                                                           "_end": m, "_midway": None})
                    recv.attrs["_right_child"] = Obj("R", cls=icls, attrs={"_top": top, "_start": m,
                                                                            "_end": recv.attrs["_end"], "_midway": None})
                    return None
                return bk.BrownianHooks.on_call(self, interp, callee, args, kwargs, node, fi)
        it = Interp(model, H())
        node = Obj("node", cls=icls, attrs={"_top": top, "_start": Fraction(0), "_end": Fraction(8), "_midway": None})
        it.call_function(sp, [node, Fraction(q)], {})
        want, lo, hi = [], Fraction(0), Fraction(8)
        while True:
            mid = (lo + hi) / 2
            want.append((lo, hi, mid))
            if q > mid:
                lo = mid
            elif q < mid:
                hi = mid
            else:
                break
        rep.check(splits == want, "R06.2b", astq.loc(sp), f"{sp.key}::R06.2b::q={q},tol={tol}",
                  f"dyadic `_split` towards {q} on [0, 8] (tol {tol}) performs the exact splits {[(int(a), int(b), str(m)) for a, b, m in splits]}; "
                  f"the dyadic tree requires {[(int(a), int(b), str(m)) for a, b, m in want]} (each node halved, "
                  f"descending towards the requested point, stopping when it is reached)", "dyadic bisection")
    # non-dyadic mode: one exact split at the requested point
    top, _ = bk.make_top(model, halfway=False)
    got = []

    class H2(bk.BrownianHooks):
        def on_call(self, interp, callee, args, kwargs, node, fi):
            from ..interp import BoundMethod
            if isinstance(callee, BoundMethod) and callee.fi.name == "_split_exact":
                got.append(args[0] if args else kwargs.get("midway"))
                return None
            return bk.BrownianHooks.on_call(self, interp, callee, args, kwargs, node, fi)
    it = Interp(model, H2())
    node = Obj("node", cls=icls, attrs={"_top": top, "_start": Fraction(0), "_end": Fraction(8), "_midway": None})
    it.call_function(sp, [node, Fraction(3)], {})
    rep.check(got == [Fraction(3)], "R06.2b", astq.loc(sp), f"{sp.key}::R06.2b::non-dyadic",
              f"without halfway_tree `_split(3)` performs exact splits at {got}, expected [3]", "one split at the point")
    ctx.floor("R06.2b", 8)


_run_c06 = run


def run(ctx):
    _run_c06(ctx)
    ctx.guard(r06_2b)
    # the value for an interval must not depend on earlier queries: no in-place update of tensors the tree may hold
    from . import c05
    ctx.guard(c05.r05_5)
    ctx.guard(r06_6)
    ctx.guard(r06_7)
    from . import c05 as _c05
    ctx.guard(_c05.r05_7)           # a wrapper that rebuilds its interval while answering makes values depend on the history


# ------------------------------------------------------------------------------------------------ R06.9
def r06_9(ctx):
    """Objects do not influence each other: the seeds a node gets are a function of that object's (entropy, pool size) and
    the node's (key, depth) -- whatever other Brownian objects in the process did before.

    One evaluator session (module-level state of the package persists in it) first splits a node of object A, then the
    node at some position of object B; B differs from A in exactly one of entropy / pool size / key / depth, or in none.
    B's seeds must equal those of a fresh session in which B is alone."""
    from .c04 import eval_split_exact  # noqa: F401  (same set-up, two objects in one session here)
    rep, model = ctx.rep, ctx.model
    rep.rule("R06.9", "no state shared between Brownian objects: a node's seeds in a process that has already split nodes of "
                      "another object equal its seeds in a fresh process")
    se = model.func(BI, "_Interval._split_exact")
    rep.analysed(se)
    icls = model.cls(BI, "_Interval")

    def split(it, ent, pool, key, depth):
        top, _ = bk.make_top(model, extra={"_entropy": nf.sym(ent, True), "_pool_size": nf.sym(pool, True)})
        parent = Obj("parent", attrs={"_spawn_key": nf.sym(key, True), "_depth": nf.sym(depth, True)})
        node = Obj("node", cls=icls, attrs={"_parent": parent, "_is_left": True, "_top": top, "_start": nf.sym("a", True),
                                            "_end": nf.sym("b", True), "_midway": None})
        it.call_function(se, [node, nf.sym("m", True)], {})
        slots = sorted(k for k in node.attrs if k.endswith("_seed"))
        return tuple((k, node.attrs[k]) for k in slots)
    A = ("ENTROPY", "POOL", "K", "D")
    for label, B in (("same entropy, another pool size", ("ENTROPY", "POOL2", "K", "D")),
                     ("another entropy", ("ENTROPY2", "POOL", "K", "D")),
                     ("another position", ("ENTROPY", "POOL", "K2", "D")),
                     ("another depth", ("ENTROPY", "POOL", "K", "D2")),
                     ("an equal object", A)):
        it = Interp(model, bk.BrownianHooks())
        split(it, *A)
        got = split(it, *B)
        want = split(Interp(model, bk.BrownianHooks()), *B)
        ok = len(got) == len(want) and all(k1 == k2 and isinstance(v1, Rat) and nf.equal(v1, v2)
                                           for (k1, v1), (k2, v2) in zip(got, want))
        diff = next(((k1, v1, v2) for (k1, v1), (k2, v2) in zip(got, want) if not (isinstance(v1, Rat) and nf.equal(v1, v2))),
                    None)
        rep.check(ok, "R06.9", astq.loc(se), f"{se.key}::R06.9::{label}",
                  f"after a node of one Brownian object has been split, the node of a second object ({label}) gets "
                  f"{diff[0] if diff else ''} = `{diff[1] if diff else ''}`; alone in the process it gets `{diff[2] if diff else ''}`: "
                  f"two objects built with the same entropy and options do not return the same values if a third object was "
                  f"used in between", "same seeds as in a fresh process")
    ctx.floor("R06.9", 5)


_run_c06i = run


def run(ctx):
    _run_c06i(ctx)
    ctx.guard(r06_9)


_run_before_replay = run


def run(ctx):
    _run_before_replay(ctx)
    # small-model replay of the real tree: the interplay of cache, search hint, dependency tree, splitting and rounding over
    # whole query histories, on exact rationals with symbolic noise (replay.py)
    from . import replay_rules
    ctx.guard(replay_rules.r06_10)


EXPLANATION = EXPLANATION + " " + (
    "R06.10 (replay.py, see C03): two replays of the same (entropy, options, query sequence) agree, in two fresh evaluator sessions and when the second object is built in the session in which an object with another pool size was used before; in dyadic mode the probes' values are the same after four different histories; another entropy gives other values. R06.9: within one evaluator session (module-level state of the package persists) the seeds of a node of a second object equal those of a fresh session.")


_run_before_r06_11 = run


def run(ctx):
    _run_before_r06_11(ctx)
    from . import replay_rules
    ctx.guard(replay_rules.r06_11)


_run_before_r03_12 = run


def run(ctx):
    _run_before_r03_12(ctx)
    from . import replay_rules
    ctx.guard(replay_rules.r03_12)
