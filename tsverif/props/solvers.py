"""E5 for the solver zoo: evaluation of ``methods.select`` and of the solver constructors over the finite
configuration domains declared in ``torchsde/settings.py`` (constant propagation over enum domains; the repository is
not imported)."""
from fractions import Fraction

from .. import nf
from ..errors import AnalysisError
from ..interp import ClassRef, Hooks, Interp, Intrinsic, Obj, SimRaise, BoundMethod, Closure
from . import solverkit

SETTINGS = "torchsde/settings.py"
METHODS_INIT = "torchsde/_core/methods/__init__.py"
BASE_SOLVER = "torchsde/_core/base_solver.py"
ADJOINT_SDE = "torchsde/_core/adjoint_sde.py"


class Domains:
    def __init__(self, model):
        it = Interp(model)
        mod = model.module(SETTINGS)

        def values(clsname):
            if clsname not in mod.classes:
                raise AnalysisError(f"enum class {clsname} vanished", where=SETTINGS)
            c = mod.classes[clsname]
            out = {}
            for k, expr in c.attrs.items():
                if k.startswith("__"):
                    continue
                v = it.eval(expr, {}, _scope(model, mod))
                if not isinstance(v, str):
                    raise AnalysisError(f"{clsname}.{k} is not a string constant", where=SETTINGS)
                out[k] = v
            return out
        self.methods = values("METHODS")
        self.noise_types = values("NOISE_TYPES")
        self.sde_types = values("SDE_TYPES")
        self.levy = values("LEVY_AREA_APPROXIMATIONS")
        self.options = values("METHOD_OPTIONS")


def _scope(model, mod):
    from ..interp import _ModuleScope
    return _ModuleScope(mod)


class QuietHooks(Hooks):
    def external_call(self, interp, dotted, args, kwargs, node, fi):
        if dotted == "torch.Size":
            seq = list(args[0])
            n = Fraction(1)
            for x in seq:
                n *= x
            return Obj("torch.Size", attrs={"numel": Intrinsic("numel", lambda it, a, k, nd, f: n)})
        return NotImplemented


def select_table(model, dom):
    """{(method value, sde_type value): ClassInfo | ('raise', exc_name)}; also an entry for an unknown method."""
    sel = model.func(METHODS_INIT, "select")
    out = {}
    for mv in list(dom.methods.values()) + ["<unknown-method>"]:
        for sv in dom.sde_types.values():
            it = Interp(model, QuietHooks())
            try:
                r = it.call_function(sel, [], {"method": mv, "sde_type": sv})
            except SimRaise as e:
                out[(mv, sv)] = ("raise", e.exc_name)
                continue
            if isinstance(r, ClassRef):
                out[(mv, sv)] = r.cls
            else:
                raise AnalysisError(f"methods.select({mv!r}, {sv!r}) evaluates to {r!r}, not a class",
                                    where=METHODS_INIT)
    return out


def make_bm_obj(levy, noise_channels=3):
    bm = solverkit.make_bm()
    bm.attrs["levy_area_approximation"] = levy
    bm.attrs["shape"] = (Fraction(2), Fraction(noise_channels))
    return bm


def make_sde_obj(model, sde_type, noise_type, adjoint=False, available=None):
    sde = solverkit.make_sde(available=available)
    sde.attrs["sde_type"] = sde_type
    sde.attrs["noise_type"] = noise_type
    if adjoint:
        sde.cls_marker = "AdjointSDE"
        fwd = solverkit.make_sde()
        fwd.attrs["sde_type"] = sde_type
        fwd.attrs["noise_type"] = noise_type
        sde.attrs["forward_sde"] = fwd
    return sde


class CtorHooks(QuietHooks):
    def __init__(self, model):
        self.adj = model.cls(ADJOINT_SDE, "AdjointSDE")

    def isinstance(self, interp, obj, classes):
        for c in classes:
            if isinstance(c, ClassRef) and c.cls is self.adj:
                return getattr(obj, "cls_marker", None) == "AdjointSDE"
        return NotImplemented


def instantiate(model, cls, sde, bm, options=None):
    """Evaluate the constructor chain of a solver class; returns the abstract solver object or raises SimRaise."""
    it = Interp(model, CtorHooks(model))
    kwargs = dict(sde=sde, bm=bm, dt=nf.sym("dt", True), adaptive=False, rtol=nf.sym("rtol", True),
                  atol=nf.sym("atol", True), dt_min=nf.sym("dt_min", True),
                  options=dict(options) if options is not None else {})
    obj = it.instantiate(cls, [], kwargs)
    return obj


def solver_attr(model, obj, name):
    """Value of a solver attribute (instance slot first, then class attribute through the MRO)."""
    it = Interp(model, QuietHooks())
    return it.getattr(obj, name)


def step_function(model, obj):
    it = Interp(model, QuietHooks())
    st = it.getattr(obj, "step")
    if isinstance(st, BoundMethod):
        return st.fi
    raise AnalysisError(f"`step` of {obj!r} is {st!r}, not a method")


def solver_classes(model, dom):
    tbl = select_table(model, dom)
    out = []
    for v in tbl.values():
        if not isinstance(v, tuple) and v not in out:
            out.append(v)
    return out, tbl
