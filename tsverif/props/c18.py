"""C18 -- logqp returns the path-wise KL integrand and does not disturb the solution (DESIGN.md section C18)."""
import ast
from fractions import Fraction

from .. import astq, nf
from ..errors import AnalysisError
from ..interp import Cat, ClassRef, Closure, Hooks, Interp, Intrinsic, Obj, SimRaise
from ..model import own_nodes
from ..nf import Rat
from . import solverkit

BASE_SDE = "torchsde/_core/base_sde.py"
SDEINT = "torchsde/_core/sdeint.py"
MISC = "torchsde/_core/misc.py"

EXPLANATION = (
    "SDELogqp's methods and the logqp paths of check_contract / parse_return are partially evaluated (ast only) on "
    "symbolic tensors with the user's f, g, h opaque. R18.1: in all four sibling implementations (f / f_and_g x "
    "diagonal / general) the appended drift channel is 1/2 sum_dim1 u^2 with u = (f - h)/g (diagonal; stable_division "
    "is a guarded a/b) or u = pinv(g)(f - h) (general), as a polynomial identity. R18.2: f_and_g_X == (f_X, g_X) "
    "component-wise. R18.3: the base functions see only y[:, :-1]; the first block of every output is the unmodified "
    "base output; the appended diffusion row is zero; R18.4: parse_return differences the accumulated integral as "
    "L[i+1] - L[i] over consecutive output times after splitting (d-1, 1) on the last axis; check_contract appends "
    "exactly one zero column to y0. Not decided: non-negativity as a number, the solver's accuracy on the integral."
)


class LogqpHooks(solverkit.StepHooks):
    def __init__(self):
        super().__init__(2)
        self.stable_div = []

    def on_call(self, interp, callee, args, kwargs, node, fi):
        if isinstance(callee, Closure) and callee.fi is not None and callee.fi.module.relpath == MISC:
            if callee.fi.name == "stable_division":
                a, b = args[0], args[1]
                self.stable_div.append((a, b))
                return Rat.lift(a) / Rat.lift(b)
            if callee.fi.name == "batch_mvp":
                return nf.bilinear("mvp", args[0], args[1])
        return NotImplemented

    def external_call(self, interp, dotted, args, kwargs, node, fi):
        if dotted == "torch.cat":
            dim = kwargs.get("dim", args[1] if len(args) > 1 else Fraction(0))
            return Cat("cat", list(args[0]), dim)
        # linear algebra other than `g.pinverse()`: opaque, then normalised by `_normal_equations` where it is exactly
        # the pseudo-inverse (full column rank is the property's premise)
        if dotted in ("torch.bmm", "torch.matmul"):
            return nf.bilinear("bmm", args[0], args[1])
        if dotted == "torch.eye":
            return nf.fn("eye", *[a for a in args if isinstance(a, (Rat, Fraction, int))])
        if dotted in ("torch.linalg.solve", "torch.solve"):
            return _normal_equations(nf.fn("solve", args[0], args[1]))
        if dotted in ("torch.linalg.pinv", "torch.pinverse"):
            return nf.fn("pinv", args[0])
        if dotted in ("torch.linalg.lstsq",):
            raise AnalysisError("torch.linalg.lstsq is not modelled", where=astq.loc(fi, node))
        if dotted == "torch.stack":
            dim = kwargs.get("dim", args[1] if len(args) > 1 else Fraction(0))
            return Cat("stack", list(args[0]), dim)
        return NotImplemented

    def tensor_method(self, interp, recv, name, args, kwargs, node, fi):
        if name == "size":
            return nf.fn("size", recv, *args) if args else (nf.fn("size", recv, 0), nf.fn("size", recv, 1))
        if name == "transpose" and sorted(int(a) for a in args) in ([1, 2], [-2, -1]):
            return nf.transpose(recv)            # the diffusion is (batch, d, m): axes (1, 2) are the matrix axes
        if name == "squeeze" and (args and int(args[0]) == -1 or kwargs.get("dim") == -1):
            return nf.rewrite(recv, lambda a, xs: xs[0] if a[0] == "col" else None)
        if name == "new_zeros":
            return Rat.const(0)
        return NotImplemented


def _normal_equations(x):
    """solve(bmm(G^T, G), col(mvp(G^T, v))) is col(mvp(pinv(G), v)) when G has full column rank; anything else (a
    regularised Gram matrix, a different right-hand side) stays an opaque `solve`."""
    def f(a, args):
        if a[0] != "fn" or a[1] != "solve" or len(args) != 2:
            return None
        A, B = Rat.lift(args[0]), Rat.lift(args[1])
        for cand in nf.all_atoms(A):
            if cand[0] == "fn" and cand[1] == "G":
                G = Rat.atom(cand)
                gram = nf.bilinear("bmm", nf.transpose(G), G)
                if not nf.equal(A, gram):
                    continue
                Bu = nf.rewrite(B, lambda b, xs: xs[0] if b[0] == "col" else None)
                # B must be mvp(G^T, v) for some v: read v off the bilinear atoms
                Bu = nf.reduce_sqrt(Bu)
                out = Rat.const(0)
                ok = True
                for m, c in Bu.num.terms.items():
                    bil = [(t, e) for t, e in m if t[0] == "bil" and t[1] == "mvp"]
                    if len(bil) != 1 or bil[0][1] != 1 or not nf.equal(nf.key_to_rat(bil[0][0][2]), nf.transpose(G)):
                        ok = False
                        break
                    coef = Rat(nf.Poly({tuple((t, e) for t, e in m if t != bil[0][0]): c}), Bu.den)
                    out = out + coef * nf.bilinear("mvp", nf.fn("pinv", G), nf.key_to_rat(bil[0][0][3]))
                if ok:
                    return nf.wrap_axis(out, "col")
        return None
    return nf.rewrite(x, f)


def make_logqp(model, nt):
    cls = model.cls(BASE_SDE, "SDELogqp")

    def mk(nm):
        return Intrinsic(f"user.{nm}", lambda it, a, k, n, f: nf.fn(nm.upper(), a[0], a[1]))
    user = Obj("user", attrs={"noise_type": nt, "sde_type": "ito", "f": mk("f"), "g": mk("g"), "h": mk("h")})
    hooks = LogqpHooks()
    it = Interp(model, hooks)
    obj = it.instantiate(cls, [user], {})
    return obj, it, hooks


def _parts(v, what, fi):
    if not (isinstance(v, Cat) and v.kind == "cat" and len(v.parts) == 2 and v.dim == 1):
        raise AnalysisError(f"{what} is `{v}`, not torch.cat([base, extra], dim=1)", where=astq.loc(fi))
    return v.parts


def r18_1(ctx):
    rep, model = ctx.rep, ctx.model
    rep.rule("R18.1", "appended drift channel == 1/2 sum_dim1 ((f-h)/g)^2 (diagonal) or 1/2 sum_dim1 (pinv(g)(f-h))^2 "
                      "(general); R18.2 sibling agreement; R18.3 base output unmodified, zero diffusion row, y[:, :-1]")
    for nt, (tname, yname), warm in [(n, names, w) for n in ("diagonal", "general", "additive", "scalar")
                                     for names, w in ((("t", "y"), False), (("t2", "y2"), True))]:
        t, y = nf.sym(tname, True), nf.sym(yname)
        ys = nf.linear("getitem[:,:-1]", (), y)
        Fv, Gv, Hv = nf.fn("F", t, ys), nf.fn("G", t, ys), nf.fn("H", t, ys)
        obj, it, hooks = make_logqp(model, nt)
        if warm:
            # the same wrapper object has already been evaluated at another (time, state): results must not depend on it
            t0_, y0_ = nf.sym("t_first", True), nf.sym("y_first")
            for slot in ("f", "g", "f_and_g"):
                it.call(obj.attrs.get(slot), [t0_, y0_], {})
        slots = {}
        for slot in ("f", "g", "f_and_g"):
            bm = obj.attrs.get(slot)
            if bm is None:
                raise AnalysisError(f"SDELogqp does not register `{slot}` for {nt} noise", where=BASE_SDE)
            slots[slot] = (bm, it.call(bm, [t, y], {}))
        nt_tag = nt + ("/second-evaluation" if warm else "")
        u = (Fv - Hv) / Gv if nt == "diagonal" else nf.bilinear("mvp", nf.fn("pinv", Gv), Fv - Hv)
        want_extra = Fraction(1, 2) * nf.linear("sum[dim=1,keepdim=True]", (), u * u)
        for slot in ("f", "f_and_g"):
            bm, val = slots[slot]
            fi = bm.fi
            rep.analysed(fi)
            drift = val if slot == "f" else val[0]
            base, extra = _parts(drift, f"{fi.qualname} drift", fi)
            rep.check(nf.equal(extra, want_extra), "R18.1", astq.loc(fi), f"{fi.key}::R18.1::integrand::{nt_tag}",
                      f"{fi.qualname}: the log-ratio channel is `{extra}`; the KL integrand is 1/2 |g^+ (f - h)|^2 = "
                      f"`{want_extra}`", "1/2 sum_dim1 u^2, u = g^+ (f - h)")
            rep.check(nf.equal(base, Fv), "R18.3", astq.loc(fi), f"{fi.key}::R18.3::base-drift::{nt_tag}",
                      f"{fi.qualname}: the state block of the drift is `{base}`, not the base drift f(t, y[:, :-1]): the "
                      f"state trajectory would differ from the one without logqp", "base drift on y[:, :-1]")
        for slot in ("g", "f_and_g"):
            bm, val = slots[slot]
            fi = bm.fi
            rep.analysed(fi)
            diff = val if slot == "g" else val[1]
            base, extra = _parts(diff, f"{fi.qualname} diffusion", fi)
            rep.check(nf.equal(base, Gv), "R18.3", astq.loc(fi), f"{fi.key}::R18.3::base-diffusion::{nt_tag}",
                      f"{fi.qualname}: the state block of the diffusion is `{base}`, not g(t, y[:, :-1])",
                      "base diffusion on y[:, :-1]")
            rep.check(nf.equal(extra, Rat.const(0)), "R18.3", astq.loc(fi), f"{fi.key}::R18.3::zero-row::{nt_tag}",
                      f"{fi.qualname}: the diffusion of the log-ratio channel is `{extra}`, not zero: noise would enter "
                      f"the integral", "zero diffusion for the extra channel")
        # siblings
        fa = slots["f_and_g"][1]
        same = isinstance(fa, tuple) and len(fa) == 2 and _cat_equal(fa[0], slots["f"][1]) and _cat_equal(fa[1], slots["g"][1])
        rep.check(same, "R18.2", astq.loc(slots["f_and_g"][0].fi), f"{slots['f_and_g'][0].fi.key}::R18.2::siblings::{nt_tag}",
                  f"f_and_g for {nt} noise differs from (f, g): solvers using different methods would integrate different "
                  f"integrands", "f_and_g == (f, g)")
    ctx.floor("R18.1", 4)
    ctx.floor("R18.3", 12)
    ctx.floor("R18.2", 2)


def _cat_equal(a, b):
    return isinstance(a, Cat) and isinstance(b, Cat) and a.dim == b.dim and len(a.parts) == len(b.parts) and \
        all(nf.equal(x, y) for x, y in zip(a.parts, b.parts))


class ScalarTensorHooks(Hooks):
    """Exact scalar semantics of the element-wise tensor idioms a guarded division is written with (one entry of the
    tensors at a time): abs, sign (sign(0) = 0), copysign, detach, where, full_like / ones_like / zeros_like, clamp."""

    def tensor_method(self, interp, recv, name, args, kwargs, node, fi):
        x = recv if isinstance(recv, Fraction) else (recv.const_value() if isinstance(recv, Rat) else None)
        if x is None:
            return NotImplemented
        if name in ("detach", "clone", "contiguous", "float", "double"):
            return x
        if name == "abs":
            return abs(x)
        if name in ("sign", "sgn"):
            return Fraction((x > 0) - (x < 0))
        if name == "copysign":
            o = args[0]
            o = o if isinstance(o, Fraction) else Fraction(o)
            return abs(x) if o >= 0 else -abs(x)
        if name in ("clamp_min", "clamp") and (args or "min" in kwargs) and name == "clamp_min":
            return max(x, Fraction(args[0]))
        if name == "clamp":
            lo, hi = kwargs.get("min", args[0] if args else None), kwargs.get("max", args[1] if len(args) > 1 else None)
            if lo is not None:
                x = max(x, Fraction(lo))
            if hi is not None:
                x = min(x, Fraction(hi))
            return x
        return NotImplemented

    def external_call(self, interp, dotted, args, kwargs, node, fi):
        if dotted == "torch.where" and len(args) == 3:
            return args[1] if bool(args[0]) else args[2]
        if dotted == "torch.full_like":
            return Fraction(kwargs.get("fill_value", args[1] if len(args) > 1 else 0))
        if dotted == "torch.ones_like":
            return Fraction(1)
        if dotted == "torch.zeros_like":
            return Fraction(0)
        if dotted in ("torch.abs", "torch.sign", "torch.copysign") and args:
            return self.tensor_method(interp, Fraction(args[0]), dotted.split(".")[-1], args[1:], kwargs, node, fi)
        return NotImplemented


def r18_g(ctx):
    """The guarded division of the diagonal-noise integrand, one entry at a time, on exact rationals: for |b| > eps the
    result is a / b; for every other b -- including b exactly 0, which is what the guard is for -- the divisor has
    modulus eps (so the quotient is finite) and the sign of b where b has one."""
    rep, model = ctx.rep, ctx.model
    rep.rule("R18.5", "stable_division entry by entry on exact rationals: a / b where |b| > eps; otherwise a divisor of modulus "
                      "eps with the sign of b -- never zero, also for b = 0")
    sd = model.func(MISC, "stable_division")
    rep.analysed(sd)
    a_node = sd.node.args
    params = [p.arg for p in a_node.args]
    defaults = dict(zip(params[len(params) - len(a_node.defaults):], a_node.defaults))
    eps_param = next((p for p in params[2:] if p in defaults and isinstance(defaults[p], ast.Constant)), None)
    if eps_param is None:
        raise AnalysisError("stable_division no longer has a constant default tolerance", where=astq.loc(sd))
    eps = nf.frac(defaults[eps_param].value)
    bad = []
    n = 0
    for b in (Fraction(3), Fraction(-3), eps * 2, -eps * 2, eps, -eps, eps / 2, -eps / 2, Fraction(0)):
        for a in (Fraction(1), Fraction(0), Fraction(-2)):
            n += 1
            it = Interp(model, ScalarTensorHooks())
            try:
                r = it.call_function(sd, [a, b], {})
            except AnalysisError as e:
                if "zero" in str(e).lower():
                    bad.append(f"a={a}, b={b}: division by zero")
                    continue
                raise
            r = r if isinstance(r, Fraction) else (r.const_value() if isinstance(r, Rat) else None)
            if r is None:
                raise AnalysisError(f"stable_division({a}, {b}) did not evaluate to a number", where=astq.loc(sd))
            if abs(b) > eps:
                if r != a / b:
                    bad.append(f"a={a}, b={b}: returns {r}, not a / b = {a / b}")
            else:
                want_abs = abs(a) / eps
                if abs(r) != want_abs or (a != 0 and b != 0 and (r > 0) != ((a > 0) == (b > 0))):
                    bad.append(f"a={a}, b={b}: returns {r}; expected modulus {want_abs} with the sign of a / b")
    rep.check(not bad, "R18.5", astq.loc(sd), f"{sd.key}::R18.5::guarded-division",
              f"stable_division: {'; '.join(bad[:4])}: with diagonal noise a channel whose diffusion is (nearly or exactly) zero "
              f"makes the log-ratio inf / nan or gives it the wrong sign", "guarded quotient", facts={"cases": n, "eps": str(eps)})
    ctx.floor("R18.5", 1)


def r18_4(ctx):
    rep, model = ctx.rep, ctx.model
    rep.rule("R18.4", "parse_return: split (d-1, 1) on the last axis, increments L[i+1] - L[i]; check_contract appends "
                      "one zero column and wraps the SDE")
    pr = model.func(SDEINT, "parse_return")
    rep.analysed(pr)
    # the differencing itself (split sizes, increments L[i+1] - L[i], output shape) is decided entry by entry on
    # index-level tensors by R18.6, whatever form the code gives it (a Python loop, one vectorised difference);
    # here: without logqp the solution passes through unchanged
    y0, ys, ex = nf.sym("y0"), nf.sym("ys"), nf.sym("EXTRA")
    it = Interp(model, LogqpHooks())
    out = it.call_function(pr, [y0, ys, ex, False, False], {})
    out2 = it.call_function(pr, [y0, ys, ex, True, False], {})
    ok = nf.equal(out, ys) and isinstance(out2, tuple) and nf.equal(out2[0], ys) and nf.equal(out2[1], ex)
    rep.check(ok, "R18.4", astq.loc(pr), f"{pr.key}::R18.4::passthrough", "without logqp parse_return must return ys "
              "(and the extra state) unchanged", "passthrough without logqp")
    # check_contract: the logqp arm
    cc = model.func(SDEINT, "check_contract")
    arm = next((s for s in cc.node.body if isinstance(s, ast.If) and ast.unparse(s.test) == "logqp"), None)
    if arm is None:
        raise AnalysisError("check_contract no longer has `if logqp:`", where=astq.loc(cc))
    wrapped = []

    class H2(LogqpHooks):
        def on_call(self, interp, callee, args, kwargs, node, fi):
            if isinstance(callee, ClassRef) and callee.cls.name == "SDELogqp":
                wrapped.append(args)
                return Obj("logqp-sde")
            return LogqpHooks.on_call(self, interp, callee, args, kwargs, node, fi)
    it = Interp(model, H2())
    sde0 = Obj("sde0")
    env = {"logqp": True, "sde": sde0, "y0": y0}
    it.exec_stmt(arm, env, cc)
    v = env["y0"]
    ok = isinstance(v, Cat) and v.kind == "cat" and v.dim == 1 and len(v.parts) == 2 and nf.equal(v.parts[0], y0) \
        and nf.equal(v.parts[1], Rat.const(0)) and len(wrapped) == 1 and wrapped[0][0] is sde0 \
        and getattr(env["sde"], "name", "") == "logqp-sde"
    rep.check(ok, "R18.4", astq.loc(cc, arm), f"{cc.key}::R18.4::augment",
              f"with logqp the state becomes `{v}` and the SDE `{env['sde']}`; expected cat((y0, zeros(batch, 1)), dim=1) "
              f"and SDELogqp(sde)", "one zero column appended; SDE wrapped")
    ctx.floor("R18.4", 2)


def r18_6(ctx):
    """parse_return on small index-level tensors (one symbol per entry): for batch sizes 1 and 2 the log-ratio output has
    shape (len(ts) - 1, batch) with entries L[i+1, b] - L[i, b], and the state block is ys[..., :d] entry by entry.  (A
    squeeze without an axis collapses the batch axis when the batch has one row.)"""
    from . import c17
    rep, model = ctx.rep, ctx.model
    rep.rule("R18.6", "parse_return at index level: log-ratio of shape (len(ts) - 1, batch), entries L[i+1, b] - L[i, b], for "
                      "batch sizes 1 and 2; state block unchanged")
    pr = model.func(SDEINT, "parse_return")
    rep.analysed(pr)
    T0, d = (4, 3) if ctx.tier == "thorough" else (3, 2)
    for B, T in [(B, T0) for B in ((1, 2, 3) if ctx.tier == "thorough" else (1, 2))] + [(2, 1), (2, 2)]:
        it = c17._index_interp(model)
        ys = c17.ST.symbolic("ys", (T, B, d + 1))
        y0 = c17.ST.symbolic("y0", (B, d + 1))
        try:
            out = it.call_function(pr, [y0, ys, (), False, True], {})
        except SimRaise as e:
            rep.fail("R18.6", astq.loc(pr), f"{pr.key}::R18.6::batch={B}" + ("" if T == T0 else f"::len(ts)={T}"),
                     f"parse_return raises {e.exc_name} ({e.message}) for batch size {B} and {T} output time(s)")
            continue
        ok = isinstance(out, tuple) and len(out) == 2 and all(isinstance(o, c17.ST) for o in out)
        why = f"returns `{out!r}`"
        if ok:
            state, lr = out
            ok = state.shape == (T, B, d) and all(nf.equal(state.data[ix], ys.data[ix]) for ix in state.data)
            why = f"state block has shape {state.shape}"
            if ok:
                ok = lr.shape == (T - 1, B)
                why = f"the log-ratio has shape {lr.shape}, not {(T - 1, B)}"
                if ok:
                    ok = all(nf.equal(lr.data[(i, b)], ys.data[(i + 1, b, d)] - ys.data[(i, b, d)])
                             for i in range(T - 1) for b in range(B))
                    why = "its entries are not L[i+1, b] - L[i, b]"
        rep.check(ok, "R18.6", astq.loc(pr), f"{pr.key}::R18.6::batch={B}" + ("" if T == T0 else f"::len(ts)={T}"),
                  f"parse_return(logqp=True) on ys of shape {(T, B, d + 1)}: {why}",
                  f"log-ratio (len(ts) - 1, {B}), increments of the last channel")
        # with extra=True the solver state comes back as it is (it is the state of the augmented system: a continued solve
        # needs its extra channel -- the integrand at the hand-over time)
        it2 = c17._index_interp(model)
        ex = (c17.ST.symbolic("exf", (B, d + 1)), c17.ST.symbolic("exz", (B, d + 1)))
        try:
            out2 = it2.call_function(pr, [y0, ys, ex, True, True], {})
            ok2 = isinstance(out2, tuple) and len(out2) == 3 and isinstance(out2[2], tuple) and len(out2[2]) == 2 and \
                all(isinstance(a, c17.ST) and a.equal(b) for a, b in zip(out2[2], ex))
            got = [getattr(a, "shape", a) for a in out2[2]] if isinstance(out2, tuple) and len(out2) == 3 and isinstance(out2[2], tuple) else out2
        except SimRaise as e:
            ok2, got = False, f"raises {e.exc_name}"
        rep.check(ok2, "R18.6", astq.loc(pr), f"{pr.key}::R18.6::extra-unchanged::batch={B}" + ("" if T == T0 else f"::len(ts)={T}"),
                  f"parse_return(logqp=True, extra=True) hands back a solver state of shapes `{got}`, not the state of shapes "
                  f"{[(B, d + 1)] * 2} it was given: a solve continued from it loses the integrand at the hand-over time",
                  "extra solver state returned unchanged")
    ctx.floor("R18.6", 8)


def run(ctx):
    ctx.guard(r18_1)
    ctx.guard(r18_g)
    ctx.guard(r18_4)
    ctx.guard(r18_6)
    # "additive over output intervals ... as integrated by the chosen solver": a solve continued from the returned solver
    # state must carry the augmented state as it is -- its extra channel holds the integrand at the hand-over time
    from . import c13
    ctx.guard(c13.r13_2)


_run_before_r12_4 = run


def run(ctx):
    _run_before_r12_4(ctx)
    # the running log-ratio is a state channel: between two grid states it is reported by linear interpolation, which is what
    # makes it additive over output intervals and exactly 1/2 |c|^2 (t - s) for a constant integrand (rule of C12)
    from . import c12
    ctx.guard(c12.r12_4)


# ------------------------------------------------------------------------------------------------ R18.7
def r18_7(ctx):
    """'The state trajectory returned is identical to the one returned without logqp': with fixed steps that follows from
    R18.3 (the wrapper leaves the state channels alone).  With adaptive steps it also needs the step controller to look
    at the state channels only: the running log-ratio is an extra channel of the solver's state (check_contract appends
    a zero column to y0, decided by evaluating the validation phase on shapes), and an error estimate taken over the
    whole state lets that channel take part in accepting / rejecting steps and in the next step size."""
    from . import c19
    from . import integrate_kit as ik
    rep, model = ctx.rep, ctx.model
    rep.rule("R18.7", "with logqp the error estimate of adaptive stepping is taken over the state channels only (the log-ratio "
                      "channel, appended to the solver's state, does not influence which steps are accepted)")
    # (a) the solver's state with logqp: one more channel than y0
    B, d = 4, 3
    hooks = c19.ContractHooks()
    sde = c19.make_user_sde("diagonal", methods=("f", "g", "h"))
    r = c19.eval_check_contract(model, sde=sde, y0=c19.TObj((B, d), "y0"), bm=None, method="euler", logqp=True, hooks=hooks)
    call = getattr(hooks, "integration_call", None)
    if r[0] != "ok" or call is None:
        raise AnalysisError(f"R18.7: the validation phase with logqp=True does not reach the solver: {r[:2]}")
    y_arg = next((a for a in call[1] + list(call[2].values()) if isinstance(a, c19.TObj) and len(a.shape) == 2), None)
    augmented = y_arg is not None and tuple(int(x) for x in y_arg.shape) == (B, d + 1)
    # (b) what the controller's error estimate is applied to
    fi, prologue, for_node, while_node, tail, epilogue = ik.loop_structure(model)
    rep.analysed(fi)
    whole = []
    for p in ik.enumerate_paths(model, True, while_node.body):
        for args, kwargs, node, no_grad in p.extras["compute_error"]:
            for a in list(args[:2]):
                atoms = nf.all_atoms(a) if isinstance(a, Rat) else []
                is_whole_state = isinstance(a, Rat) and len(a.num.terms) == 1 and any(t[0] == "fn" and t[1] == "STEP_Y" for t in atoms) \
                    and nf.equal(a, Rat.atom(next(t for t in atoms if t[0] == "fn" and t[1] == "STEP_Y" and nf.equal(Rat.atom(t), a))))
                whole.append(is_whole_state)
    if not whole:
        raise AnalysisError("R18.7: no compute_error call found on the adaptive paths", where=astq.loc(fi))
    bad = augmented and all(whole)
    rep.check(not bad, "R18.7", astq.loc(fi), f"{fi.key}::R18.7::controller-sees-log-ratio-channel",
              f"with logqp=True the solver's state has {d + 1} channels for a {d}-channel y0 (the running log-ratio is appended by "
              f"check_contract), and integrate hands the whole states of the full step and of the two half steps to "
              f"compute_error: the log-ratio channel takes part in the error estimate, so with adaptive=True the accepted "
              f"steps, and with them the returned states, differ from those of the same solve without logqp",
              "error estimate over the state channels only")
    ctx.floor("R18.7", 1)


_run_before_r18_7 = run


def run(ctx):
    _run_before_r18_7(ctx)
    ctx.guard(r18_7)


# ------------------------------------------------------------------------------------------------ R18.8
def r18_8(ctx):
    """'The state trajectory returned is identical to the one returned without logqp under the same noise' needs, before any
    step is taken, that the solver is the same solver: the validation phase of sdeint is evaluated (C19's scenario, concrete
    output times some of which are closer than dt) with and without logqp, and the settings the solver object ends up with
    -- dt, tolerances, dt_min, adaptive, method class -- are compared."""
    from fractions import Fraction as F
    from . import c19
    rep, model = ctx.rep, ctx.model
    rep.rule("R18.8", "the solver constructed with logqp=True has the settings (dt, rtol, atol, dt_min, adaptive, class) of the "
                      "solver constructed without, also when output times are closer than dt")
    fi = model.func(SDEINT, "sdeint")
    rep.analysed(fi)
    for label, ts in (("outputs closer than dt", c19.TSeq((F(0), F(1, 50), F(1, 2), F(1)))),
                      ("outputs further apart than dt", c19.TSeq((F(0), F(1, 2), F(1))))):
        got = {}
        for logqp in (False, True):
            hooks = c19.ContractHooks()
            sde = c19.make_user_sde("general", methods=("f", "g", "h"))
            r = c19.eval_check_contract(model, sde=sde, ts=ts, bm=None, method="euler", dt=F(1, 10), logqp=logqp, hooks=hooks)
            so = getattr(hooks, "solver", None)
            if r[0] != "ok" or so is None:
                raise AnalysisError(f"R18.8: the validation phase (logqp={logqp}, {label}) does not reach the solver: {r[:2]}",
                                    where=astq.loc(fi))
            got[logqp] = {k: so.attrs.get(k) for k in ("dt", "rtol", "atol", "dt_min", "adaptive")}
            got[logqp]["class"] = so.cls.name if so.cls is not None else None
        diff = [k for k in got[False] if repr(got[False][k]) != repr(got[True][k])]
        rep.check(not diff, "R18.8", astq.loc(fi), f"{fi.key}::R18.8::{label}",
                  f"{label}, dt = 1/10: with logqp=True the solver has {diff[0] if diff else ''} = `{got[True].get(diff[0]) if diff else ''}`, "
                  f"without `{got[False].get(diff[0]) if diff else ''}`: the two solves step on different grids, so the states "
                  f"returned with logqp are not those returned without", "same solver settings")
    ctx.floor("R18.8", 2)


_run_before_r18_8 = run


def run(ctx):
    _run_before_r18_8(ctx)
    ctx.guard(r18_8)
