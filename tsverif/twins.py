"""Whole-package behaviour-preserving transformations used by the thorough tier (and tools/rename_locals.py): every
check must give the same verdict on them as on the tree they were made from.

  unparse  -- every file re-emitted by ast.unparse (comments gone, formatting and line numbers changed)
  rename   -- additionally every function-local variable renamed (suffix `_r`): assigned names, loop / with targets,
              comprehension variables; not parameters, globals or attributes
"""
import ast
import os


class Scope:
    def __init__(self, node, parent):
        self.node, self.parent = node, parent
        self.params, self.locals, self.declared = set(), set(), set()


def collect(fn):
    sc_params = set()
    a = fn.args
    for x in a.posonlyargs + a.args + a.kwonlyargs:
        sc_params.add(x.arg)
    if a.vararg:
        sc_params.add(a.vararg.arg)
    if a.kwarg:
        sc_params.add(a.kwarg.arg)
    stored, declared = set(), set()

    def walk(n):
        for c in ast.iter_child_nodes(n):
            if isinstance(c, (ast.FunctionDef, ast.AsyncFunctionDef, ast.Lambda, ast.ClassDef)):
                if isinstance(c, (ast.FunctionDef, ast.AsyncFunctionDef, ast.ClassDef)):
                    pass                      # the def name itself is a local binding, but keep it (may be referenced as attribute)
                continue
            if isinstance(c, (ast.Global, ast.Nonlocal)):
                declared.update(c.names)
            if isinstance(c, ast.Name) and isinstance(c.ctx, (ast.Store, ast.Del)):
                stored.add(c.id)
            walk(c)
    body = fn.body if isinstance(fn.body, list) else [fn.body]
    for st in body:
        if isinstance(st, (ast.FunctionDef, ast.AsyncFunctionDef, ast.ClassDef, ast.Lambda)):
            continue
        if isinstance(st, ast.Name) and isinstance(st.ctx, ast.Store):
            stored.add(st.id)
        if isinstance(st, (ast.Global, ast.Nonlocal)):
            declared.update(st.names)
        walk(st)
    return sc_params, stored - sc_params - declared


class Renamer(ast.NodeTransformer):
    def __init__(self):
        self.stack = []        # list of (params, locals)

    def _resolve(self, name):
        for params, locs in reversed(self.stack):
            if name in params:
                return False
            if name in locs:
                return True
        return False

    def _fn(self, node):
        params, locs = collect(node)
        # decorators / defaults are evaluated in the enclosing scope
        if not isinstance(node, ast.Lambda):
            node.decorator_list = [self.visit(d) for d in node.decorator_list]
        node.args.defaults = [self.visit(d) for d in node.args.defaults]
        node.args.kw_defaults = [self.visit(d) if d is not None else None for d in node.args.kw_defaults]
        self.stack.append((params, locs))
        if isinstance(node, ast.Lambda):
            node.body = self.visit(node.body)
        else:
            node.body = [self.visit(s) for s in node.body]
        self.stack.pop()
        return node

    visit_FunctionDef = _fn
    visit_AsyncFunctionDef = _fn
    visit_Lambda = _fn

    def visit_ClassDef(self, node):
        saved = self.stack
        # class bodies do not see enclosing function locals by plain name lookup in methods; keep enclosing scopes for methods
        node.body = [self.visit(s) for s in node.body]
        self.stack = saved
        return node

    def visit_Name(self, node):
        if self.stack and self._resolve(node.id):
            node.id = node.id + "_r"
        return node




def transform_tree(root, rename=True):
    """Rewrite every .py file under <root>/torchsde in place."""
    n = 0
    for dp, dn, fn in os.walk(os.path.join(root, "torchsde")):
        for f in fn:
            if f.endswith(".py"):
                p = os.path.join(dp, f)
                tree = ast.parse(open(p, encoding="utf-8").read())
                if rename:
                    tree = Renamer().visit(tree)
                    ast.fix_missing_locations(tree)
                open(p, "w", encoding="utf-8").write(ast.unparse(tree) + "\n")
                n += 1
    return n


class _Logger(ast.NodeTransformer):
    """Insert a logging call at the top of every function body and turn simple assignments into annotated ones."""

    def __init__(self, annotate):
        self.annotate = annotate

    def _fn(self, node):
        self.generic_visit(node)
        call = ast.parse(f"logging.getLogger(__name__).debug('enter %s', {node.name!r})").body[0]
        body = list(node.body)
        k = 1 if body and isinstance(body[0], ast.Expr) and isinstance(body[0].value, ast.Constant) and \
            isinstance(body[0].value.value, str) else 0
        node.body = body[:k] + [call] + body[k:]
        return node

    visit_FunctionDef = _fn
    visit_AsyncFunctionDef = _fn

    def visit_Assign(self, node):
        self.generic_visit(node)
        if self.annotate and len(node.targets) == 1 and isinstance(node.targets[0], ast.Name):
            return ast.AnnAssign(target=node.targets[0], annotation=ast.Name(id="object", ctx=ast.Load()),
                                 value=node.value, simple=1)
        return node


def transform_tree_logging(root, annotate=True):
    """Third whole-package twin: `import logging`, a debug call on entry of every function, annotated assignments."""
    n = 0
    for dp, dn, fn in os.walk(os.path.join(root, "torchsde")):
        for f in fn:
            if f.endswith(".py"):
                p = os.path.join(dp, f)
                tree = ast.parse(open(p, encoding="utf-8").read())
                tree = _Logger(annotate).visit(tree)
                # after the module docstring and __future__ imports
                k = 0
                while k < len(tree.body) and ((isinstance(tree.body[k], ast.Expr) and isinstance(tree.body[k].value, ast.Constant))
                                              or (isinstance(tree.body[k], ast.ImportFrom) and tree.body[k].module == "__future__")):
                    k += 1
                tree.body.insert(k, ast.parse("import logging").body[0])
                ast.fix_missing_locations(tree)
                open(p, "w", encoding="utf-8").write(ast.unparse(tree) + "\n")
                n += 1
    return n


class _Control(ast.NodeTransformer):
    """Fourth twin: `if c: A else: B` becomes `if not c: B else: A` (elif chains are kept as they are), and every
    single-operator ordering comparison `a < b` is written the other way round, `b > a`."""
    _FLIP = {ast.Lt: ast.Gt, ast.Gt: ast.Lt, ast.LtE: ast.GtE, ast.GtE: ast.LtE}

    def visit_If(self, node):
        self.generic_visit(node)
        if node.orelse and not (len(node.orelse) == 1 and isinstance(node.orelse[0], ast.If)):
            node.test = ast.UnaryOp(op=ast.Not(), operand=node.test)
            node.body, node.orelse = node.orelse, node.body
        return node

    def visit_Compare(self, node):
        self.generic_visit(node)
        if len(node.ops) == 1 and type(node.ops[0]) in self._FLIP:
            return ast.Compare(left=node.comparators[0], ops=[self._FLIP[type(node.ops[0])]()], comparators=[node.left])
        return node


def transform_tree_control(root):
    n = 0
    for dp, dn, fn in os.walk(os.path.join(root, "torchsde")):
        for f in fn:
            if f.endswith(".py"):
                p = os.path.join(dp, f)
                tree = _Control().visit(ast.parse(open(p, encoding="utf-8").read()))
                ast.fix_missing_locations(tree)
                open(p, "w", encoding="utf-8").write(ast.unparse(tree) + "\n")
                n += 1
    return n
