"""Whole-package behaviour-preserving transformations used by the thorough tier (and tools/rename_locals.py): every
check must give the same verdict on them as on the tree they were made from.

  unparse  -- every file re-emitted by ast.unparse (comments gone, formatting and line numbers changed)
  rename   -- additionally every function-local variable renamed (suffix `_r`): assigned names, loop / with targets,
              comprehension variables; not parameters, globals or attributes
"""
import ast
import os


class Scope:
    def __init__(self, node, parent):
        self.node, self.parent = node, parent
        self.params, self.locals, self.declared = set(), set(), set()


def collect(fn):
    sc_params = set()
    a = fn.args
    for x in a.posonlyargs + a.args + a.kwonlyargs:
        sc_params.add(x.arg)
    if a.vararg:
        sc_params.add(a.vararg.arg)
    if a.kwarg:
        sc_params.add(a.kwarg.arg)
    stored, declared = set(), set()

    def walk(n):
        for c in ast.iter_child_nodes(n):
            if isinstance(c, (ast.FunctionDef, ast.AsyncFunctionDef, ast.Lambda, ast.ClassDef)):
                if isinstance(c, (ast.FunctionDef, ast.AsyncFunctionDef, ast.ClassDef)):
                    pass                      # the def name itself is a local binding, but keep it (may be referenced as attribute)
                continue
            if isinstance(c, (ast.Global, ast.Nonlocal)):
                declared.update(c.names)
            if isinstance(c, ast.Name) and isinstance(c.ctx, (ast.Store, ast.Del)):
                stored.add(c.id)
            walk(c)
    body = fn.body if isinstance(fn.body, list) else [fn.body]
    for st in body:
        if isinstance(st, (ast.FunctionDef, ast.AsyncFunctionDef, ast.ClassDef, ast.Lambda)):
            continue
        if isinstance(st, ast.Name) and isinstance(st.ctx, ast.Store):
            stored.add(st.id)
        if isinstance(st, (ast.Global, ast.Nonlocal)):
            declared.update(st.names)
        walk(st)
    return sc_params, stored - sc_params - declared


class Renamer(ast.NodeTransformer):
    def __init__(self):
        self.stack = []        # list of (params, locals)

    def _resolve(self, name):
        for params, locs in reversed(self.stack):
            if name in params:
                return False
            if name in locs:
                return True
        return False

    def _fn(self, node):
        params, locs = collect(node)
        # decorators / defaults are evaluated in the enclosing scope
        if not isinstance(node, ast.Lambda):
            node.decorator_list = [self.visit(d) for d in node.decorator_list]
        node.args.defaults = [self.visit(d) for d in node.args.defaults]
        node.args.kw_defaults = [self.visit(d) if d is not None else None for d in node.args.kw_defaults]
        self.stack.append((params, locs))
        if isinstance(node, ast.Lambda):
            node.body = self.visit(node.body)
        else:
            node.body = [self.visit(s) for s in node.body]
        self.stack.pop()
        return node

    visit_FunctionDef = _fn
    visit_AsyncFunctionDef = _fn
    visit_Lambda = _fn

    def visit_ClassDef(self, node):
        saved = self.stack
        # class bodies do not see enclosing function locals by plain name lookup in methods; keep enclosing scopes for methods
        node.body = [self.visit(s) for s in node.body]
        self.stack = saved
        return node

    def visit_Name(self, node):
        if self.stack and self._resolve(node.id):
            node.id = node.id + "_r"
        return node




def transform_tree(root, rename=True):
    """Rewrite every .py file under <root>/torchsde in place."""
    n = 0
    for dp, dn, fn in os.walk(os.path.join(root, "torchsde")):
        for f in fn:
            if f.endswith(".py"):
                p = os.path.join(dp, f)
                tree = ast.parse(open(p, encoding="utf-8").read())
                if rename:
                    tree = Renamer().visit(tree)
                    ast.fix_missing_locations(tree)
                open(p, "w", encoding="utf-8").write(ast.unparse(tree) + "\n")
                n += 1
    return n


class _Logger(ast.NodeTransformer):
    """Insert a logging call at the top of every function body and turn simple assignments into annotated ones."""

    def __init__(self, annotate):
        self.annotate = annotate

    def _fn(self, node):
        self.generic_visit(node)
        call = ast.parse(f"logging.getLogger(__name__).debug('enter %s', {node.name!r})").body[0]
        body = list(node.body)
        k = 1 if body and isinstance(body[0], ast.Expr) and isinstance(body[0].value, ast.Constant) and \
            isinstance(body[0].value.value, str) else 0
        node.body = body[:k] + [call] + body[k:]
        return node

    visit_FunctionDef = _fn
    visit_AsyncFunctionDef = _fn

    def visit_Assign(self, node):
        self.generic_visit(node)
        if self.annotate and len(node.targets) == 1 and isinstance(node.targets[0], ast.Name):
            return ast.AnnAssign(target=node.targets[0], annotation=ast.Name(id="object", ctx=ast.Load()),
                                 value=node.value, simple=1)
        return node


def transform_tree_logging(root, annotate=True):
    """Third whole-package twin: `import logging`, a debug call on entry of every function, annotated assignments."""
    n = 0
    for dp, dn, fn in os.walk(os.path.join(root, "torchsde")):
        for f in fn:
            if f.endswith(".py"):
                p = os.path.join(dp, f)
                tree = ast.parse(open(p, encoding="utf-8").read())
                tree = _Logger(annotate).visit(tree)
                # after the module docstring and __future__ imports
                k = 0
                while k < len(tree.body) and ((isinstance(tree.body[k], ast.Expr) and isinstance(tree.body[k].value, ast.Constant))
                                              or (isinstance(tree.body[k], ast.ImportFrom) and tree.body[k].module == "__future__")):
                    k += 1
                tree.body.insert(k, ast.parse("import logging").body[0])
                ast.fix_missing_locations(tree)
                open(p, "w", encoding="utf-8").write(ast.unparse(tree) + "\n")
                n += 1
    return n


class _Control(ast.NodeTransformer):
    """Fourth twin: `if c: A else: B` becomes `if not c: B else: A` (elif chains are kept as they are), and every
    single-operator ordering comparison `a < b` is written the other way round, `b > a`."""
    _FLIP = {ast.Lt: ast.Gt, ast.Gt: ast.Lt, ast.LtE: ast.GtE, ast.GtE: ast.LtE}

    def visit_If(self, node):
        self.generic_visit(node)
        if node.orelse and not (len(node.orelse) == 1 and isinstance(node.orelse[0], ast.If)):
            node.test = ast.UnaryOp(op=ast.Not(), operand=node.test)
            node.body, node.orelse = node.orelse, node.body
        return node

    def visit_Compare(self, node):
        self.generic_visit(node)
        if len(node.ops) == 1 and type(node.ops[0]) in self._FLIP:
            return ast.Compare(left=node.comparators[0], ops=[self._FLIP[type(node.ops[0])]()], comparators=[node.left])
        return node


def transform_tree_control(root):
    n = 0
    for dp, dn, fn in os.walk(os.path.join(root, "torchsde")):
        for f in fn:
            if f.endswith(".py"):
                p = os.path.join(dp, f)
                tree = _Control().visit(ast.parse(open(p, encoding="utf-8").read()))
                ast.fix_missing_locations(tree)
                open(p, "w", encoding="utf-8").write(ast.unparse(tree) + "\n")
                n += 1
    return n


class _Temps(ast.NodeTransformer):
    """Fifth twin: `return <expr>` becomes `ret_value = <expr>; return ret_value` (non-trivial expressions only),
    `x = a if c else b` becomes an if / else statement, and every function without a docstring gets one."""

    def _fn(self, node):
        self.generic_visit(node)
        body = list(node.body)
        if not (body and isinstance(body[0], ast.Expr) and isinstance(body[0].value, ast.Constant)
                and isinstance(body[0].value.value, str)):
            body.insert(0, ast.Expr(value=ast.Constant(value=f"{node.name}: documented by the twin generator.")))
        node.body = body
        return node

    visit_FunctionDef = _fn
    visit_AsyncFunctionDef = _fn

    def visit_Lambda(self, node):
        return node                       # nothing inside a lambda can become a statement

    def _block(self, stmts):
        out = []
        for st in stmts:
            st = self.visit(st)
            if isinstance(st, ast.Return) and st.value is not None and not isinstance(st.value, (ast.Name, ast.Constant)) \
                    and not any(isinstance(n, (ast.Yield, ast.YieldFrom)) for n in ast.walk(st.value)):
                out.append(ast.Assign(targets=[ast.Name(id="ret_value", ctx=ast.Store())], value=st.value))
                out.append(ast.Return(value=ast.Name(id="ret_value", ctx=ast.Load())))
            elif isinstance(st, ast.Assign) and len(st.targets) == 1 and isinstance(st.targets[0], ast.Name) \
                    and isinstance(st.value, ast.IfExp):
                tgt = st.targets[0].id
                out.append(ast.If(test=st.value.test,
                                  body=[ast.Assign(targets=[ast.Name(id=tgt, ctx=ast.Store())], value=st.value.body)],
                                  orelse=[ast.Assign(targets=[ast.Name(id=tgt, ctx=ast.Store())], value=st.value.orelse)]))
            else:
                out.append(st)
        return out

    def generic_visit(self, node):
        for field in ("body", "orelse", "finalbody"):
            val = getattr(node, field, None)
            if isinstance(val, list) and val and isinstance(val[0], ast.stmt):
                setattr(node, field, self._block(val))
        if isinstance(node, ast.Try):
            for hnd in node.handlers:
                hnd.body = self._block(hnd.body)
        if isinstance(node, ast.ClassDef) or isinstance(node, ast.Module):
            return node
        # expressions below statements are left alone
        return node


def transform_tree_temps(root):
    """Fifth whole-package twin (see _Temps) plus an unused import and an unused private helper in every module."""
    n = 0
    for dp, dn, fn in os.walk(os.path.join(root, "torchsde")):
        for f in fn:
            if f.endswith(".py"):
                p = os.path.join(dp, f)
                tree = ast.parse(open(p, encoding="utf-8").read())
                tree = _Temps().visit(tree)
                k = 0
                while k < len(tree.body) and ((isinstance(tree.body[k], ast.Expr) and isinstance(tree.body[k].value, ast.Constant))
                                              or (isinstance(tree.body[k], ast.ImportFrom) and tree.body[k].module == "__future__")):
                    k += 1
                tree.body.insert(k, ast.parse("import itertools as _twin_itertools").body[0])
                tree.body.append(ast.parse("def _twin_unused_helper(values):\n    total = 0\n    for v in values:\n        total = total + v\n    return total").body[0])
                ast.fix_missing_locations(tree)
                open(p, "w", encoding="utf-8").write(ast.unparse(tree) + "\n")
                n += 1
    return n


def _pure(e):
    if isinstance(e, (ast.Name, ast.Constant)):
        return True
    if isinstance(e, ast.Attribute):
        return _pure(e.value)
    if isinstance(e, ast.BinOp):
        return _pure(e.left) and _pure(e.right)
    if isinstance(e, ast.UnaryOp):
        return _pure(e.operand)
    if isinstance(e, ast.Subscript):
        return _pure(e.value) and _pure(e.slice)
    if isinstance(e, ast.Tuple):
        return all(_pure(x) for x in e.elts)
    if isinstance(e, ast.Slice):
        return all(x is None or _pure(x) for x in (e.lower, e.upper, e.step))
    return False


class _Hoist(ast.NodeTransformer):
    """Sixth twin: one sub-expression per simple statement is computed into a temporary first --
    `y = a + b * c` becomes `twin_tmp_1 = b * c; y = a + twin_tmp_1`, `f(a, g(b))` becomes `twin_tmp_2 = g(b); f(a, twin_tmp_2)`
    -- only where everything evaluated before the hoisted expression is free of calls, so the order of effects is kept."""

    def __init__(self):
        self.n = 0

    def _hoistable(self, e):
        return isinstance(e, (ast.BinOp, ast.Call)) and not any(
            isinstance(n, (ast.Yield, ast.YieldFrom, ast.Await, ast.NamedExpr, ast.Lambda, ast.Starred)) for n in ast.walk(e))

    def _split(self, value):
        """(temp_assign, new_value) or None"""
        if isinstance(value, ast.BinOp) and _pure(value.left) and self._hoistable(value.right):
            self.n += 1
            name = f"twin_tmp_{self.n}"
            tmp = ast.Assign(targets=[ast.Name(id=name, ctx=ast.Store())], value=value.right)
            return tmp, ast.BinOp(left=value.left, op=value.op, right=ast.Name(id=name, ctx=ast.Load()))
        if isinstance(value, ast.BinOp) and self._hoistable(value.left) and isinstance(value.left, ast.BinOp):
            r = self._split(value.left)
            if r:
                return r[0], ast.BinOp(left=r[1], op=value.op, right=value.right)
        if isinstance(value, ast.Call) and _pure(value.func) and not any(isinstance(a, ast.Starred) for a in value.args):
            for k, a in enumerate(value.args):
                if self._hoistable(a):
                    self.n += 1
                    name = f"twin_tmp_{self.n}"
                    tmp = ast.Assign(targets=[ast.Name(id=name, ctx=ast.Store())], value=a)
                    args = list(value.args)
                    args[k] = ast.Name(id=name, ctx=ast.Load())
                    return tmp, ast.Call(func=value.func, args=args, keywords=value.keywords)
                if not _pure(a):
                    break
        return None

    def _block(self, stmts):
        out = []
        for st in stmts:
            st = self.visit(st)
            if isinstance(st, (ast.Assign, ast.Return)) and st.value is not None and \
                    not any(isinstance(n, (ast.Yield, ast.YieldFrom)) for n in ast.walk(st.value)):
                r = self._split(st.value)
                if r:
                    out.append(ast.copy_location(r[0], st))
                    st.value = r[1]
            out.append(st)
        return out

    def _fn(self, node):
        for field in ("body",):
            node.body = self._block(node.body)
        return node

    visit_FunctionDef = _fn
    visit_AsyncFunctionDef = _fn

    def visit_Lambda(self, node):
        return node

    def visit_ClassDef(self, node):
        node.body = [self.visit(s) if isinstance(s, (ast.FunctionDef, ast.AsyncFunctionDef, ast.ClassDef)) else s for s in node.body]
        return node

    def generic_visit(self, node):
        if isinstance(node, ast.stmt):
            for field in ("body", "orelse", "finalbody"):
                val = getattr(node, field, None)
                if isinstance(val, list) and val and isinstance(val[0], ast.stmt):
                    setattr(node, field, self._block(val))
            if isinstance(node, ast.Try):
                for hnd in node.handlers:
                    hnd.body = self._block(hnd.body)
        return node


def transform_tree_hoist(root):
    n = 0
    for dp, dn, fn in os.walk(os.path.join(root, "torchsde")):
        for f in fn:
            if f.endswith(".py"):
                p = os.path.join(dp, f)
                tree = ast.parse(open(p, encoding="utf-8").read())
                tr = _Hoist()
                tree.body = [tr.visit(s) if isinstance(s, (ast.FunctionDef, ast.AsyncFunctionDef, ast.ClassDef)) else s for s in tree.body]
                ast.fix_missing_locations(tree)
                open(p, "w", encoding="utf-8").write(ast.unparse(tree) + "\n")
                n += 1
    return n


SDE_PROTOCOL = {"f", "g", "h", "f_and_g", "g_prod", "f_and_g_prod", "prod", "g_prod_and_gdg_prod", "dg_ga_jvp_column_sum",
                "forward", "backward", "apply", "__call__", "__init__", "save_for_backward"}


def _signatures(root):
    """name -> (param names without self/cls, is_method) for every function whose name has one consistent signature
    in the package and takes no *args / **kwargs."""
    sigs = {}
    bad = set()
    for dp, dn, fn in os.walk(os.path.join(root, "torchsde")):
        for f in fn:
            if not f.endswith(".py"):
                continue
            tree = ast.parse(open(os.path.join(dp, f), encoding="utf-8").read())

            def visit(body, in_class):
                for st in body:
                    if isinstance(st, ast.ClassDef):
                        visit(st.body, True)
                    elif isinstance(st, (ast.FunctionDef, ast.AsyncFunctionDef)):
                        a = st.args
                        static = any(isinstance(d, ast.Name) and d.id == "staticmethod" for d in st.decorator_list)
                        if a.vararg or a.kwarg or a.posonlyargs or a.kwonlyargs or st.name in SDE_PROTOCOL or \
                                any(not (isinstance(d, ast.Name) and d.id in ("staticmethod", "classmethod", "abc.abstractmethod"))
                                    and not (isinstance(d, ast.Attribute)) for d in st.decorator_list):
                            bad.add(st.name)
                            continue
                        params = [x.arg for x in a.args]
                        if in_class and not static:
                            params = params[1:]
                        sig = (tuple(params), in_class)
                        if st.name in sigs and sigs[st.name] != sig:
                            bad.add(st.name)
                        sigs[st.name] = sig
            visit(tree.body, False)
    return {k: v for k, v in sigs.items() if k not in bad}


class _ArgStyle(ast.NodeTransformer):
    """Seventh twin: calls of the package's own functions switch argument style -- all-positional calls become keyword
    calls, keyword calls become positional (where the keywords are a prefix-complete set of the parameters).  Only
    callees resolved by name to one consistent signature inside the package: `name(...)`, `<module alias>.name(...)`,
    `self.name(...)`; never the user-facing SDE / Brownian protocol."""

    def __init__(self, sigs, module_aliases):
        self.sigs, self.aliases = sigs, module_aliases

    def visit_Call(self, node):
        self.generic_visit(node)
        f = node.func
        name, method = None, None
        if isinstance(f, ast.Name):
            name, method = f.id, False
        elif isinstance(f, ast.Attribute) and isinstance(f.value, ast.Name):
            if f.value.id == "self":
                name, method = f.attr, True
            elif f.value.id in self.aliases:
                name, method = f.attr, False
        if name is None or name not in self.sigs or self.sigs[name][1] != method:
            return node
        params = self.sigs[name][0]
        if any(isinstance(a, ast.Starred) for a in node.args) or any(k.arg is None for k in node.keywords):
            return node
        if node.args and not node.keywords and len(node.args) <= len(params):
            return ast.Call(func=f, args=[], keywords=[ast.keyword(arg=p, value=a) for p, a in zip(params, node.args)])
        if node.keywords:
            given = {k.arg: k.value for k in node.keywords}
            rest = list(params[len(node.args):len(node.args) + len(given)])
            if set(rest) == set(given):
                return ast.Call(func=f, args=list(node.args) + [given[p] for p in rest], keywords=[])
        return node


def transform_tree_argstyle(root):
    sigs = _signatures(root)
    n = 0
    for dp, dn, fn in os.walk(os.path.join(root, "torchsde")):
        for f in fn:
            if f.endswith(".py"):
                p = os.path.join(dp, f)
                tree = ast.parse(open(p, encoding="utf-8").read())
                aliases = set()
                for st in tree.body:
                    if isinstance(st, ast.ImportFrom) and st.level > 0:
                        for al in st.names:
                            aliases.add(al.asname or al.name)
                # a from-import may bring in a function rather than a module: then `alias.name(...)` does not occur
                tree = _ArgStyle(sigs, aliases).visit(tree)
                ast.fix_missing_locations(tree)
                open(p, "w", encoding="utf-8").write(ast.unparse(tree) + "\n")
                n += 1
    return n
