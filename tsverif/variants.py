"""Two-way self-test of the checkers (thorough tier, DESIGN.md 3.11).

Each variant is a single-site edit of the *current* source of one file, applied to a scratch copy of the package
under a mkdtemp directory (outside /repo and /verif, removed afterwards).  ``fire`` variants break one rule instance
and must add at least one violation (of the named rule) to what the unedited tree reports; ``silent`` variants are
behaviour-preserving twins and must leave the set of reported violations unchanged.  Verdicts are *relative to the
unedited tree*, so the self-test stays meaningful when /repo itself carries a violation.  An edit whose anchor text
is no longer present is skipped (NOTE), never failed.  A self-test failure is an ANALYSIS-ERROR (exit 2): it says
the checker is wrong, not the repository.
"""
import concurrent.futures
import importlib
import os
import random
import shutil
import tempfile

from .errors import AnalysisError

BI = "torchsde/_brownian/brownian_interval.py"
DERIVED = "torchsde/_brownian/derived.py"
M = "torchsde/_core/methods/"
T = "torchsde/_core/methods/tableaus/"
CORE = "torchsde/_core/"


class V:
    def __init__(self, name, relpath, old, new, expect="fire", rule=None, count=1, more=()):
        self.name, self.relpath, self.old, self.new = name, relpath, old, new
        self.expect, self.rule, self.count = expect, rule, count
        self.more = tuple(more)          # further (old, new) edits of the same file, each occurring exactly once


def _load_variants(pid):
    try:
        mod = importlib.import_module(f"tsverif.variant_tables.{pid.lower()}")
    except ImportError:
        return []
    return list(mod.VARIANTS)


def _violation_set(rep):
    return {(o.rule, o.construct) for o in rep.violations()}


def _run_one(args):
    pid, root, v_name, relpath, old, new, count, more = args
    from .check import run_property
    src_path = os.path.join(root, relpath)
    with open(src_path, encoding="utf-8") as fh:
        src = fh.read()
    if src.count(old) != count:
        return v_name, "skipped", f"anchor text occurs {src.count(old)} time(s), expected {count}", None
    for o2, n2 in more:
        if src.count(o2) != 1:
            return v_name, "skipped", f"anchor text `{o2[:40]}` occurs {src.count(o2)} time(s), expected 1", None
    tmp = tempfile.mkdtemp(prefix="tsverif-variant-")
    try:
        shutil.copytree(os.path.join(root, "torchsde"), os.path.join(tmp, "torchsde"),
                        ignore=shutil.ignore_patterns("__pycache__"))
        with open(os.path.join(tmp, relpath), "w", encoding="utf-8") as fh:
            edited = src.replace(old, new)
            for o2, n2 in more:
                edited = edited.replace(o2, n2)
            fh.write(edited)
        saved = os.environ.get("TSVERIF_REPLAY")
        # the replay rules (whole query histories on the real Brownian tree) read torchsde/_brownian only: a variant that
        # edits another file leaves their verdict on the base tree untouched; the others get the smallest matrix
        touched = [relpath]
        os.environ["TSVERIF_REPLAY"] = "light" if any("_brownian" in r for r in touched) else "skip"
        # likewise the end-to-end replay of the driver reads the driver, the interpolation and the step functions only
        driver = ("_core/base_solver.py", "_core/methods/", "_core/interp.py", "_brownian/derived.py")
        os.environ["TSVERIF_SOLVER_REPLAY"] = "light" if any(d in r for r in touched for d in driver) else "skip"
        try:
            code, rep = run_property(pid, tmp, "quick", 0, write=False, quiet=True)
            # normalise construct keys (they contain no absolute paths, only relpaths)
            return v_name, "ran", None, sorted(_violation_set(rep))
        except AnalysisError as e:
            return v_name, "analysis-error", str(e), None
        except Exception as e:
            return v_name, "analysis-error", f"{type(e).__name__}: {e}", None
    finally:
        os.environ.pop("TSVERIF_SOLVER_REPLAY", None)
        if "saved" in locals():
            if saved is None:
                os.environ.pop("TSVERIF_REPLAY", None)
            else:
                os.environ["TSVERIF_REPLAY"] = saved
        shutil.rmtree(tmp, ignore_errors=True)


def _strip_suffix(construct):
    """Constructs quote source text; in the renamed twin locals carry the suffix `_r`."""
    import re
    return re.sub(r"\b([A-Za-z_][A-Za-z_0-9]*?)_r\b", r"\1", construct)


def run_selftest(pid, root, seed, jobs=None):
    variants = _load_variants(pid)
    if not variants:
        return
    from .check import run_property
    _, base_rep = run_property(pid, root, "quick", seed, write=False, quiet=True)
    base = _violation_set(base_rep)
    rnd = random.Random(seed)
    order = list(variants)
    rnd.shuffle(order)
    jobs = jobs or min(16, os.cpu_count() or 4)
    work = [(pid, root, v.name, v.relpath, v.old, v.new, v.count, v.more) for v in order]
    results = {}
    with concurrent.futures.ProcessPoolExecutor(max_workers=jobs) as ex:
        for name, status, msg, viols in ex.map(_run_one, work):
            results[name] = (status, msg, viols)
    failures, ran, skipped = [], 0, 0
    for v in variants:
        status, msg, viols = results[v.name]
        if status == "skipped":
            skipped += 1
            print(f"NOTE: self-test variant {pid}/{v.name} skipped: {msg}")
            continue
        ran += 1
        if status == "analysis-error":
            if v.expect == "fire":
                # an edit the analysis refuses to interpret is not a pass, but it is not silent either
                print(f"NOTE: self-test variant {pid}/{v.name}: analysis refused the edited tree ({msg})")
                continue
            failures.append(f"{v.name}: behaviour-preserving twin made the analysis fail: {msg}")
            continue
        new = set(map(tuple, viols)) - base
        if v.expect == "fire":
            hit = [r for r, c in new if v.rule is None or r.startswith(v.rule)]
            if not hit:
                failures.append(f"{v.name}: breaking edit in {v.relpath} not reported"
                                f"{' by ' + v.rule if v.rule else ''} (new violations: {sorted(new)})")
        else:
            gone = base - set(map(tuple, viols))
            if new or gone:
                failures.append(f"{v.name}: behaviour-preserving twin changed the verdict (new: {sorted(new)}, "
                                f"gone: {sorted(gone)})")
    # whole-package twins: re-emitted by ast.unparse, and with every function-local variable renamed
    from .twins import transform_tree, transform_tree_logging, transform_tree_control, transform_tree_temps, transform_tree_hoist, transform_tree_argstyle
    for label, rename in (("unparse", False), ("rename-locals", True), ("logging+annotations", None),
                          ("inverted-ifs+mirrored-comparisons", "control"),
                          ("return-temporaries+if-statements+docstrings+unused-additions", "temps"),
                          ("hoisted-subexpressions", "hoist"),
                          ("positional<->keyword-arguments", "argstyle")):
        tmp = tempfile.mkdtemp(prefix="tsverif-twin-")
        try:
            shutil.copytree(os.path.join(root, "torchsde"), os.path.join(tmp, "torchsde"),
                            ignore=shutil.ignore_patterns("__pycache__"))
            if rename is None:
                transform_tree_logging(tmp)
            elif rename == "control":
                transform_tree_control(tmp)
            elif rename == "temps":
                transform_tree_temps(tmp)
            elif rename == "hoist":
                transform_tree_hoist(tmp)
            elif rename == "argstyle":
                transform_tree_argstyle(tmp)
            else:
                transform_tree(tmp, rename=rename)
            try:
                # the replay rules interpret the transformed package like any other; their smallest matrix is enough here
                os.environ["TSVERIF_REPLAY"], os.environ["TSVERIF_SOLVER_REPLAY"] = "light", "light"
                try:
                    code, rep = run_property(pid, tmp, "quick", 0, write=False, quiet=True)
                finally:
                    os.environ.pop("TSVERIF_REPLAY", None)
                    os.environ.pop("TSVERIF_SOLVER_REPLAY", None)
                got = {(r, _strip_suffix(c)) for r, c in _violation_set(rep)}
                want = {(r, _strip_suffix(c)) for r, c in base}
                ran += 1
                if got != want or code == 2:
                    failures.append(f"whole-package twin `{label}` changed the verdict (exit {code}; new: "
                                    f"{sorted(got - want)[:3]}, gone: {sorted(want - got)[:3]})")
            except AnalysisError as e:
                failures.append(f"whole-package twin `{label}` made the analysis fail: {e}")
            except Exception as e:
                failures.append(f"whole-package twin `{label}` made the analysis fail: {type(e).__name__}: {e}")
        finally:
            shutil.rmtree(tmp, ignore_errors=True)
    print(f"self-test {pid}: {ran} variants evaluated ({skipped} skipped), {len(failures)} failure(s)")
    if failures:
        raise AnalysisError("checker self-test failed: " + " | ".join(failures))
