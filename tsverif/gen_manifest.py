"""Regenerates /verif/MANIFEST.json from tsverif/registry.py and the rule modules that exist."""
import json
import os
import subprocess

from .registry import CLAIMS, NOT_APPLICABLE, NOT_BUILT_REASON

HERE = os.path.dirname(os.path.dirname(os.path.abspath(__file__)))
PY = "/venv/bin/python"


def main():
    checks, na = [], []
    for i in range(1, 21):
        pid = f"C{i:02d}"
        if pid in NOT_APPLICABLE:
            na.append({"property_id": pid, "reason": NOT_APPLICABLE[pid]})
            continue
        built = os.path.exists(os.path.join(HERE, "tsverif", "props", f"{pid.lower()}.py"))
        if not built:
            na.append({"property_id": pid, "reason": NOT_BUILT_REASON})
            continue
        c = CLAIMS[pid]
        checks.append({
            "property_id": pid,
            "quick_cmd": f"{PY} -m tsverif.check {pid} --tier quick",
            "thorough_cmd": f"{PY} -m tsverif.check {pid} --tier thorough",
            "evidence_file": f"/verif/evidence/{pid}.json",
            "replay_cmd_template": f"{PY} -m tsverif.check {pid} --replay {{path}}",
            "engine": "tsverif",
            "level_claimed": {"category": "other", "text": c["text"], "design_ref": f"DESIGN.md section 4, {pid}"},
            "level_note": c["note"],
            "technique": "static analysis: " + c["technique"],
        })
    try:
        fixes = subprocess.run(["git", "-C", "/repo", "log", "--format=%H %s", "--grep=^fix:"],
                               capture_output=True, text=True).stdout.strip().splitlines()
    except Exception:
        fixes = []
    manifest = {
        "version": 1,
        "setup_cmd": f"{PY} -m compileall -q tsverif",
        "hooks": {
            "guard": "TORCHSDE_VERIF",
            "enable": "none needed: the checks are static (ast over /repo's working tree); no hook exists in /repo",
            "baseline_off_cmd": "cd /repo && /venv/bin/python -m pytest -ra -q -p no:cacheprovider --timeout=900 "
                                "--continue-on-collection-errors",
            "source_commits": [],
            "add_only": True,
        },
        "engines": [{
            "name": "tsverif",
            "path": "/verif/tsverif",
            "serves_properties": [c["property_id"] for c in checks],
            "kind_free_text": "repository-specific static analysis in pure Python (ast): resolved call graph, "
                              "syntax-directed dominance, must-write typestate, explicit-flow taint, dispatch-table "
                              "evaluation over enum domains, interval analysis, polynomial normal forms of "
                              "expression trees",
        }],
        "checks": checks,
        "not_applicable": na,
        "notes": "All checks are static: they parse /repo/torchsde on every run and never import or execute it. "
                 "Exit 0 = all rule instances hold; 1 = VIOLATION lines; 2 = ANALYSIS-ERROR (the analysis could not "
                 "interpret the tree; not a verdict). Genuine defects found and repaired by unguarded `fix:` commits "
                 "in /repo (recorded as status=fixed in /verif/known_findings.json): "
                 + "; ".join(fixes),
    }
    with open(os.path.join(HERE, "MANIFEST.json"), "w") as fh:
        json.dump(manifest, fh, indent=1)
    print(f"MANIFEST.json: {len(checks)} checks, {len(na)} not applicable / not built")


if __name__ == "__main__":
    main()
