class AnalysisError(Exception):
    """The analysis cannot interpret a construct (anchor vanished, callee unresolved, construct outside a fragment).

    Converted to ``ANALYSIS-ERROR`` / exit 2 by the driver; never to a VIOLATION and never to a pass.
    """

    def __init__(self, msg, where=None):
        super().__init__(msg)
        self.where = where

    def __str__(self):
        base = super().__str__()
        if self.where:
            return f"{self.where}: {base}"
        return base
