"""E9 -- classical interval abstract interpretation for small pure-numeric fragments.

Values are closed/open intervals over the extended reals: (lo, hi, lo_open, hi_open).  Supported: constants, names and
dotted attributes (looked up in the environment), ``+ - * /``, ``**`` with a constant exponent, unary minus,
``min`` / ``max``, conditional expressions and ``if`` statements (joined by the interval hull, optionally decided
or refined by a callback).  Anything else is an AnalysisError: never a silent pass.
"""
import ast
import math

from . import astq
from .errors import AnalysisError

INF = math.inf


class Iv:
    __slots__ = ("lo", "hi", "lo_open", "hi_open")

    def __init__(self, lo, hi, lo_open=False, hi_open=False):
        self.lo, self.hi = lo, hi
        self.lo_open = lo_open or lo == -INF
        self.hi_open = hi_open or hi == INF

    @staticmethod
    def point(x):
        return Iv(x, x)

    def positive(self):
        return self.lo > 0 or (self.lo == 0 and self.lo_open)

    def nonneg(self):
        return self.lo >= 0

    def lt(self, x):
        """every value < x"""
        return self.hi < x or (self.hi == x and self.hi_open)

    def le(self, x):
        return self.hi <= x

    def ge(self, x):
        return self.lo >= x

    def __repr__(self):
        return f"{'(' if self.lo_open else '['}{self.lo:g}, {self.hi:g}{')' if self.hi_open else ']'}"

    def hull(self, o):
        if self.lo < o.lo:
            lo, loo = self.lo, self.lo_open
        elif o.lo < self.lo:
            lo, loo = o.lo, o.lo_open
        else:
            lo, loo = self.lo, self.lo_open and o.lo_open
        if self.hi > o.hi:
            hi, hio = self.hi, self.hi_open
        elif o.hi > self.hi:
            hi, hio = o.hi, o.hi_open
        else:
            hi, hio = self.hi, self.hi_open and o.hi_open
        return Iv(lo, hi, loo, hio)


def _mul_bound(a, ao, b, bo):
    """product of two bounds with openness; 0 * inf = 0 (the factor that is exactly 0 wins)."""
    if a == 0 or b == 0:
        # the bound 0 is attained only if the zero side is closed
        zero_closed = (a == 0 and not ao) or (b == 0 and not bo)
        return 0.0, not zero_closed
    return a * b, ao or bo


def add(x, y):
    return Iv(x.lo + y.lo, x.hi + y.hi, x.lo_open or y.lo_open, x.hi_open or y.hi_open)


def neg(x):
    return Iv(-x.hi, -x.lo, x.hi_open, x.lo_open)


def sub(x, y):
    return add(x, neg(y))


def mul(x, y):
    cands = [_mul_bound(a, ao, b, bo) for a, ao in ((x.lo, x.lo_open), (x.hi, x.hi_open))
             for b, bo in ((y.lo, y.lo_open), (y.hi, y.hi_open))]
    lo = min(c[0] for c in cands)
    hi = max(c[0] for c in cands)
    lo_open = all(c[1] for c in cands if c[0] == lo)
    hi_open = all(c[1] for c in cands if c[0] == hi)
    return Iv(lo, hi, lo_open, hi_open)


def recip(x, where=None):
    if x.lo < 0 < x.hi or (x.lo == 0 and not x.lo_open) or (x.hi == 0 and not x.hi_open):
        raise AnalysisError(f"interval division by an interval containing zero: {x}", where=where)
    lo = 0.0 if x.hi in (INF, -INF) else 1.0 / x.hi
    hi = 0.0 if x.lo in (INF, -INF) else (INF if x.lo == 0 else 1.0 / x.lo)
    if x.hi == 0:
        lo = -INF
    return Iv(lo, hi, x.hi_open, x.lo_open)


def div(x, y, where=None):
    return mul(x, recip(y, where))


def power(x, p, where=None):
    if p == 0:
        return Iv.point(1.0)
    if x.lo < 0:
        if float(p).is_integer() and p >= 0:
            p = int(p)
            r = Iv.point(1.0)
            for _ in range(p):
                r = mul(r, x)
            return r
        raise AnalysisError(f"power of a possibly negative interval {x} ** {p}", where=where)
    if p >= 0:
        return Iv(x.lo ** p, INF if x.hi == INF else x.hi ** p, x.lo_open, x.hi_open)
    return recip(power(x, -p, where), where)


def imin(x, y):
    if x.lo < y.lo:
        lo, loo = x.lo, x.lo_open
    elif y.lo < x.lo:
        lo, loo = y.lo, y.lo_open
    else:
        lo, loo = x.lo, x.lo_open and y.lo_open
    if x.hi < y.hi:
        hi, hio = x.hi, x.hi_open
    elif y.hi < x.hi:
        hi, hio = y.hi, y.hi_open
    else:
        hi, hio = x.hi, x.hi_open or y.hi_open
    return Iv(lo, hi, loo, hio)


def imax(x, y):
    return neg(imin(neg(x), neg(y)))


class IntervalEval:
    """Evaluates expressions / straight-line statement lists over an environment {dotted-name: Iv}."""

    def __init__(self, env, fi=None, decide=None):
        self.env = dict(env)
        self.fi = fi
        self.decide = decide  # callback(test_expr, env) -> True / False / None (unknown: join both arms)

    def where(self, node):
        return astq.loc(self.fi, node) if self.fi is not None else None

    def expr(self, e):
        if isinstance(e, ast.Constant) and isinstance(e.value, (int, float)) and not isinstance(e.value, bool):
            return Iv.point(float(e.value))
        d = astq.dotted(e)
        if d is not None:
            if d in self.env:
                return self.env[d]
            raise AnalysisError(f"interval analysis: no range known for `{d}`", where=self.where(e))
        if isinstance(e, ast.UnaryOp) and isinstance(e.op, ast.USub):
            return neg(self.expr(e.operand))
        if isinstance(e, ast.UnaryOp) and isinstance(e.op, ast.UAdd):
            return self.expr(e.operand)
        if isinstance(e, ast.BinOp):
            if isinstance(e.op, ast.Pow):
                base = self.expr(e.left)
                ex = self.expr(e.right)
                if ex.lo != ex.hi:
                    # x ** e = exp(e ln x) is monotone in each argument separately on x > 0, so its extremes over a
                    # box are at the corners: the hull of the two constant-exponent images
                    if base.lo < 0 or ex.lo in (INF, -INF) or ex.hi in (INF, -INF):
                        raise AnalysisError("interval analysis: non-constant exponent on a possibly negative base",
                                            where=self.where(e))
                    a, b = power(base, ex.lo, self.where(e)), power(base, ex.hi, self.where(e))
                    r = a.hull(b)
                    if ex.lo_open or ex.hi_open:
                        return Iv(r.lo, r.hi, True, True)
                    return r
                return power(base, ex.lo, self.where(e))
            l, r = self.expr(e.left), self.expr(e.right)
            if isinstance(e.op, ast.Add):
                return add(l, r)
            if isinstance(e.op, ast.Sub):
                return sub(l, r)
            if isinstance(e.op, ast.Mult):
                return mul(l, r)
            if isinstance(e.op, ast.Div):
                return div(l, r, self.where(e))
        if isinstance(e, ast.Call) and isinstance(e.func, ast.Name) and e.func.id in ("min", "max") and \
                not e.keywords and len(e.args) >= 2:
            vals = [self.expr(a) for a in e.args]
            out = vals[0]
            for v in vals[1:]:
                out = imin(out, v) if e.func.id == "min" else imax(out, v)
            return out
        if isinstance(e, ast.Call) and isinstance(e.func, ast.Name) and e.func.id == "float" and len(e.args) == 1:
            return self.expr(e.args[0])
        if isinstance(e, ast.IfExp):
            d = self._ask(e.test)
            if d is True:
                return self.expr(e.body)
            if d is False:
                return self.expr(e.orelse)
            return self.expr(e.body).hull(self.expr(e.orelse))
        raise AnalysisError(f"interval analysis: unsupported expression `{ast.unparse(e)}`", where=self.where(e))

    _MIRROR = {ast.Lt: ast.Gt, ast.Gt: ast.Lt, ast.LtE: ast.GtE, ast.GtE: ast.LtE, ast.Eq: ast.Eq, ast.NotEq: ast.NotEq}

    def _ask(self, test):
        """The rule's decision for a test, whichever way it is written: `not X` negates the answer for X, and a single
        comparison is also offered to the callback mirrored (a < b as b > a)."""
        if not self.decide:
            return None
        if isinstance(test, ast.UnaryOp) and isinstance(test.op, ast.Not):
            d = self._ask(test.operand)
            return None if d is None else (not d)
        first_error = None
        try:
            d = self.decide(test, self.env)
            if d is not None:
                return d
        except AnalysisError as e:             # a callback that refuses tests it does not know: try the mirrored form
            first_error = e
        if isinstance(test, ast.Compare) and len(test.ops) == 1 and type(test.ops[0]) in self._MIRROR:
            m = ast.Compare(left=test.comparators[0], ops=[self._MIRROR[type(test.ops[0])]()], comparators=[test.left])
            try:
                return self.decide(m, self.env)
            except AnalysisError:
                pass
        if first_error is not None:
            raise first_error
        return None

    def block(self, stmts):
        """Returns ('fall', env) or ('return', Iv-or-tuple)."""
        for s in stmts:
            if isinstance(s, ast.Assign) and len(s.targets) == 1:
                t = s.targets[0]
                d = astq.dotted(t)
                if d is not None:
                    try:
                        self.env[d] = self.expr(s.value)
                    except AnalysisError:
                        self.env.pop(d, None)     # unknown value: later use is an error, never a guess
                    continue
                if isinstance(t, ast.Tuple):
                    for el in t.elts:
                        dd = astq.dotted(el)
                        if dd:
                            self.env.pop(dd, None)
                    continue
            if isinstance(s, ast.If):
                d = self._ask(s.test)
                if d is True:
                    r = self.block(s.body)
                    if r is not None:
                        return r
                    continue
                if d is False:
                    r = self.block(s.orelse)
                    if r is not None:
                        return r
                    continue
                e1 = IntervalEval(self.env, self.fi, self.decide)
                e2 = IntervalEval(self.env, self.fi, self.decide)
                if self.decide:
                    # give the callback a chance to refine both arms
                    ref = getattr(self.decide, "refine", None)
                    if ref:
                        ref(s.test, True, e1.env)
                        ref(s.test, False, e2.env)
                r1 = e1.block(s.body)
                r2 = e2.block(s.orelse)
                if r1 is not None or r2 is not None:
                    if r1 is not None and r2 is not None:
                        return ("return2", r1, r2)
                    raise AnalysisError("interval analysis: return in one arm only", where=self.where(s))
                env = {}
                for k in set(e1.env) & set(e2.env):
                    env[k] = e1.env[k].hull(e2.env[k])
                self.env = env
                continue
            if isinstance(s, ast.Return):
                return ("return", s.value, dict(self.env))
            if isinstance(s, (ast.Expr, ast.Pass, ast.FunctionDef, ast.Assert)):
                continue
            if isinstance(s, (ast.While, ast.For, ast.With, ast.Try)):
                # do not look inside; drop every name it may rebind
                for d in astq._stored_names([s]):
                    self.env.pop(d, None)
                continue
            raise AnalysisError(f"interval analysis: unsupported statement `{ast.unparse(s)[:60]}`",
                                where=self.where(s))
        return None
