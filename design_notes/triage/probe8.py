import sys, signal, torch, torchsde, warnings
warnings.simplefilter('ignore')
from torchsde import BrownianInterval as BI
def run(name, fn):
    try:
        r = fn(); print(name, 'OK')
    except BaseException as e:
        print(name, 'EXC', type(e).__name__, str(e)[:100])
run('tol1e-3_dt1e-6', lambda: BI(0.,1.,size=(2,),tol=1e-3,dt=1e-6)(0.1,0.2))
run('tol1e-3_dt1e-4', lambda: BI(0.,1.,size=(2,),tol=1e-3,dt=1e-4)(0.1,0.2))
run('tol1e-3_dt1e-3', lambda: BI(0.,1.,size=(2,),tol=1e-3,dt=1e-3)(0.1,0.2))
def f():
    bm=BI(0.,1.,size=(2,),tol=1e-2)
    for i in range(300): bm(i*1e-3,(i+1)*1e-3)
run('tol1e-2_infer_steps1e-3', f)
# sdeint end-to-end with many steps
class S(torch.nn.Module):
    noise_type='diagonal'; sde_type='ito'
    def f(self,t,y): return -y
    def g(self,t,y): return 0.1*torch.ones_like(y)
run('sdeint 30000 steps(first 200)', lambda: torchsde.sdeint(S(), torch.zeros(1,1), torch.tensor([0.,200/30000.]), dt=1/30000., method='euler', bm=BI(0.,1.,size=(1,1))))
