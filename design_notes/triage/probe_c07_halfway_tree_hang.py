"""C07 / R07.8: with the dyadic tree (halfway_tree=True or BrownianTree) and a tolerance grid about as fine as the spacing
of doubles at t (tol=1e-14 for t above ~16), the rounded midpoint of a node can coincide with one of its end points; the
halfway loop of _Interval._split then descends into a child equal to its parent, forever (memory grows until exhausted).

Run:  PYTHONPATH=<tree> /venv/bin/python probe_c07_halfway_tree_hang.py   (exit 1 = defect present)."""
import signal
import sys
import warnings

import torch
import torchsde

warnings.simplefilter("ignore")


def on_alarm(*_):
    raise TimeoutError


signal.signal(signal.SIGALRM, on_alarm)
bm = torchsde.BrownianTree(t0=0., t1=100., w0=torch.zeros(1, dtype=torch.float64), entropy=1, tol=1e-14)
print("W(10, 20) =", bm(10., 20.).item())
signal.alarm(10)
try:
    w = bm(45.8503167066445, 85.87774682319022)
    signal.alarm(0)
    print("W(45.8503167066445, 85.87774682319022) =", w.item())
    # additivity through the point that used to hang
    a, b = bm(45.8503167066445, 60.), bm(60., 85.87774682319022)
    print("additivity defect:", (a + b - w).abs().item())
    sys.exit(0 if (a + b - w).abs().item() < 1e-12 else 1)
except TimeoutError:
    print("no answer after 10 s: the halfway loop does not terminate")
    sys.exit(1)
