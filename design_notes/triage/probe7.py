import torch, torchsde, warnings
warnings.simplefilter('ignore')
torch.set_default_dtype(torch.float64)
bm=torchsde.BrownianInterval(-1.,0.,size=(3,),levy_area_approximation='space-time',entropy=3)
rb=torchsde.ReverseBrownian(bm)
s,u,t=0.1,0.4,0.9
W,U=rb(s,t,return_U=True); W1,U1=rb(s,u,return_U=True); W2,U2=rb(u,t,return_U=True)
print('W chen resid', (W-W1-W2).abs().max().item())
print('U chen resid', (U-(U1+U2+(t-u)*W1)).abs().max().item())
# fixed transformation
def fixU(W,U,h): return h*W-U
print('U chen resid after transform', (fixU(W,U,t-s)-(fixU(W1,U1,u-s)+fixU(W2,U2,t-u)+(t-u)*W1)).abs().max().item())
# F6
class S(torch.nn.Module):
    noise_type='diagonal'; sde_type='ito'
    def g(self,t,y): return torch.ones_like(y)
    def h(self,t,y): return y
for logqp in (False,True):
    try:
        torchsde.sdeint(S(), torch.zeros(2,3), [0.,1.], logqp=logqp)
    except Exception as e: print('logqp',logqp,type(e).__name__, str(e)[:80])
