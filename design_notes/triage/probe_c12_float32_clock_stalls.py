"""C12 / C14 / R12.9: with float32 times the solver's clock stops advancing once dt is below half an ulp of t
(dt = 1e-3 at t >= 32768; dt_min = 1e-5 at t >= 256): curr_t + step_size == curr_t, and integrate loops forever, querying
bm(t, t), without any error.  Reported independently by five seeding agents (C01, C02, C07, C12, C14 of round 6).

Run:  PYTHONPATH=<tree> /venv/bin/python probe_c12_float32_clock_stalls.py
exit 1 = hangs (defect present); exit 0 = returns or raises an explicit error."""
import signal
import sys

import torch
import torchsde


class SDE(torch.nn.Module):
    sde_type, noise_type = 'ito', 'diagonal'

    def f(self, t, y):
        return -y

    def g(self, t, y):
        return 0.1 * torch.ones_like(y)


def on_alarm(*_):
    raise TimeoutError


signal.signal(signal.SIGALRM, on_alarm)
y0 = torch.ones(2, 1)
ts = torch.tensor([40000., 40000.5])           # float32
signal.alarm(20)
try:
    ys = torchsde.sdeint(SDE(), y0, ts, dt=1e-3, method='euler')
    print("returned", ys[-1].flatten().tolist())
    sys.exit(0)
except TimeoutError:
    print("no progress after 20 s: 40000 + 1e-3 == 40000 in float32, the stepping loop never ends")
    sys.exit(1)
except (ValueError, RuntimeError) as e:
    print("explicit error:", str(e)[:200])
    sys.exit(0)
