"""Triage (session 4): adaptive=True with dt < dt_min -- the first trial step is dt long, i.e. shorter than dt_min.
Run: PYTHONPATH=/repo /venv/bin/python this_file.py"""
import torch, torchsde, warnings
warnings.simplefilter('ignore')
torch.set_default_dtype(torch.float64)


class SDE(torch.nn.Module):
    noise_type = 'diagonal'; sde_type = 'ito'
    def f(self, t, y): return -y
    def g(self, t, y): return 0.1 * torch.ones_like(y)


class Spy(torchsde.BrownianInterval):
    log = []
    def __call__(self, ta, tb=None, **kw):
        Spy.log.append((float(ta), float(tb)))
        return super().__call__(ta, tb, **kw)


ts = torch.tensor([0., 1.])
bm = Spy(t0=0., t1=1., size=(1, 1), entropy=1)
torchsde.sdeint(SDE(), torch.ones(1, 1), ts, bm=bm, dt=1e-6, dt_min=1e-3, adaptive=True, method='milstein')
short = [(a, b) for a, b in Spy.log if b - a < 1e-3 * (1 - 1e-9) and b < 1.0]
print('first queries:', Spy.log[:3])
print('trial steps shorter than dt_min (not clipped to ts[-1]):', short[:5], '...' if len(short) > 5 else '')
