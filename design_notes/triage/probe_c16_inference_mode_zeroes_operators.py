"""C16 / C02 / R16.10: under torch.inference_mode() the derivative-using operators silently return zeros: enable_grad does
not re-enable recording there, misc.vjp / misc.jvp re-root their outputs as fresh leaves, and allow_unused=True plus
convert_none_to_zeros turn the missing derivative into an exact 0.  Derivative-based Milstein then equals Euler (a
Stratonovich SDE is solved as an Ito one), log_ode equals midpoint -- no error, no warning.  torch.no_grad() is fine.
Reported by the round-7 C02 and C16 seeding agents.   exit 1 = silently different values under inference mode."""
import sys
import torch
import torchsde

torch.set_default_dtype(torch.float64)


class SDE(torch.nn.Module):
    noise_type = 'diagonal'

    def __init__(self, sde_type):
        super().__init__()
        self.sde_type = sde_type

    def f(self, t, y):
        return -y

    def g(self, t, y):
        return 0.5 * y + 0.2


y0 = torch.ones(2, 3)
ts = torch.tensor([0., 0.5])
worst = 0.
for sde_type in ('ito', 'stratonovich'):
    out = {}
    for ctx_name, ctx in (('no_grad', torch.no_grad), ('inference_mode', torch.inference_mode)):
        bm = torchsde.BrownianInterval(0., .5, size=(2, 3), entropy=3)
        try:
            with ctx():
                out[ctx_name] = torchsde.sdeint(SDE(sde_type), y0, ts, bm=bm, method='milstein', dt=0.05)[-1].clone()
        except RuntimeError as e:
            print(sde_type, ctx_name, "raises:", str(e)[:140])
            out[ctx_name] = None
    if out['inference_mode'] is not None:
        d = (out['no_grad'] - out['inference_mode']).abs().max().item()
        print(sde_type, "milstein: |no_grad - inference_mode| =", d)
        worst = max(worst, d)
sys.exit(1 if worst > 1e-12 else 0)
