"""C15 / R10.7 (known finding): forward reversible Heun, then the reversed solve on the negated SDE with ReverseBrownian, one
BrownianInterval with tol = 0 (the default): for a dt that is not exactly representable the forward grid (accumulated from
ts[0]) and the reversed grid (accumulated from -ts[-1]) differ by ulps, the increments by O(sqrt(ulp)), and the forward states
are reconstructed to ~1e-8 only, against ~1e-15 for a dyadic dt or a Brownian motion with a tolerance.

Run:  PYTHONPATH=<tree> /venv/bin/python probe_c15_round_trip_nondyadic_dt.py   (exit 1 = reconstruction worse than 1e-10)"""
import sys
import warnings

import torch
import torchsde

torch.set_default_dtype(torch.float64)


class SDE(torch.nn.Module):
    sde_type, noise_type = 'stratonovich', 'diagonal'

    def f(self, t, y):
        return torch.tanh(y) + 0.3 * torch.cos(t)

    def g(self, t, y):
        return 0.5 + 0.3 * torch.cos(y) * torch.sin(1 + t)


class MinusSDE(torch.nn.Module):
    sde_type, noise_type = 'stratonovich', 'diagonal'

    def __init__(self, sde):
        super().__init__()
        self.sde = sde

    def f(self, t, y):
        return -self.sde.f(-t, y)

    def g(self, t, y):
        return -self.sde.g(-t, y)


def round_trip(bm, ts, dt):
    sde, y0 = SDE(), torch.full((8, 3), 0.1)
    ys, (f, g, z) = torchsde.sdeint(sde, y0, ts, bm=bm, method='reversible_heun', dt=dt, extra=True)
    back = torchsde.sdeint(MinusSDE(sde), ys[-1], -ts.flip(0), bm=torchsde.ReverseBrownian(bm), method='reversible_heun',
                           dt=dt, extra_solver_state=(-f, -g, z))
    return (ys - back.flip(0)).abs().max().item()


worst = 0.
warnings.simplefilter('ignore')
for dt in (0.125, 0.1, 0.01, 1e-3):
    for tol in (0., 1e-9):
        ts = torch.linspace(0., 1., 11)
        err = round_trip(torchsde.BrownianInterval(0., 1., size=(8, 3), entropy=7, tol=tol), ts, dt)
        print(f"dt={dt:<6g} BrownianInterval(tol={tol:g}): max |forward - reconstructed| = {err:.2e}")
        if tol == 0.:
            worst = max(worst, err)
sys.exit(1 if worst > 1e-10 else 0)
