"""C09 / R09.4 (T = 1): a single output time is accepted by sdeint and by the forward pass of sdeint_adjoint, but the backward
pass raised 'returned an incorrect number of gradients': with no interval to integrate over, the augmented state stayed a flat
tensor.  exit 1 = backward raises."""
import sys
import torch
import torchsde

torch.set_default_dtype(torch.float64)


class SDE(torch.nn.Module):
    sde_type, noise_type = 'stratonovich', 'diagonal'

    def __init__(self):
        super().__init__()
        self.a = torch.nn.Parameter(torch.tensor(0.3))

    def f(self, t, y):
        return self.a * y

    def g(self, t, y):
        return 0.2 * torch.cos(y) * self.a


sde = SDE()
y0 = torch.ones(2, 3, requires_grad=True)
ts = torch.tensor([0.5])
for method in ('midpoint', 'reversible_heun'):
    ys = torchsde.sdeint_adjoint(sde, y0, ts, method=method, dt=0.1)
    print(method, "forward:", tuple(ys.shape), "equals y0:", torch.equal(ys[0], y0))
    try:
        gy, ga = torch.autograd.grad((ys ** 2).sum(), [y0, sde.a], allow_unused=True)
        ok = torch.allclose(gy, 2 * y0) and (ga is None or float(ga.abs()) == 0.)
        print(method, "backward: dL/dy0 == 2 y0:", torch.allclose(gy, 2 * y0), " dL/da:", ga)
        if not ok:
            sys.exit(1)
    except RuntimeError as e:
        print(method, "backward raises:", str(e)[:120])
        sys.exit(1)
sys.exit(0)
