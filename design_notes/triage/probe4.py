import sys, torch, torchsde, warnings, time, traceback
warnings.simplefilter('ignore')
from torchsde import BrownianInterval as BI
for n in (1000, 5000, 10000, 20000, 40000, 100000):
    bm=BI(0.,1.,size=(2,))
    h=1.0/n
    try:
        for i in range(min(n,300)): bm(i*h,(i+1)*h)
        print(n,'ok')
    except RecursionError as e:
        tb=traceback.extract_tb(e.__traceback__)
        print(n,'RecursionError at query',i, 'frames',len(tb), tb[-1].name)
