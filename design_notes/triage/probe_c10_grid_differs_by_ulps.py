"""C10 / R10.7 (known finding): with a dt that is not exactly representable (0.1, 0.01, the default 1e-3) the reversible pair misses
relative 1e-9: the forward grid is accumulated upwards from ts[0], the backward grid upwards from -ts[i]; they differ by ulps and
Brownian increments over intervals that differ by an ulp differ by O(sqrt(ulp)).  Written by the round-6 C10 seeding agent."""
import torch, torchsde
torch.set_default_dtype(torch.float64)

class SDE(torch.nn.Module):
    sde_type, noise_type = 'stratonovich', 'diagonal'
    def __init__(self):
        super().__init__()
        g = torch.Generator().manual_seed(0)
        self.A = torch.nn.Parameter(0.5 * torch.randn(3, 3, generator=g))
        self.C = torch.nn.Parameter(0.3 * torch.randn(3, 3, generator=g))
    def f(self, t, y): return torch.tanh(y @ self.A)
    def g(self, t, y): return 0.3 * torch.sigmoid(y @ self.C)

def rel_diff(dt, ts, tol=0., ts_dtype=torch.float64):
    sde = SDE(); params = list(sde.parameters())
    y0 = torch.randn(4, 3, generator=torch.Generator().manual_seed(1)).requires_grad_()
    ts = torch.tensor(ts, dtype=ts_dtype)
    bm = torchsde.BrownianInterval(t0=float(ts[0]), t1=float(ts[-1]), size=(4, 3), entropy=7, tol=tol)
    w = torch.randn(len(ts), 4, 3, generator=torch.Generator().manual_seed(2))
    ys = torchsde.sdeint(sde, y0, ts, bm=bm, dt=dt, method='reversible_heun')
    g1 = torch.autograd.grad((ys * w).sum(), [y0] + params)
    ys = torchsde.sdeint_adjoint(sde, y0, ts, bm=bm, dt=dt, method='reversible_heun', adjoint_method='adjoint_reversible_heun')
    g2 = torch.autograd.grad((ys * w).sum(), [y0] + params)
    return max(((a - b).norm() / a.norm()).item() for a, b in zip(g1, g2))

print("dt=2^-4 ts=[0,.5,1]           :", rel_diff(2 ** -4, [0., .5, 1.]))
print("dt=0.1  ts=[0,.5,1]           :", rel_diff(0.1, [0., .5, 1.]))
print("dt=0.01 ts=[0,.5,1]           :", rel_diff(0.01, [0., .5, 1.]))
print("dt=1e-3 ts=[0,.5,1]           :", rel_diff(1e-3, [0., .5, 1.]))
print("dt=0.01 ts=[0,.5,1] bm tol=1e-9:", rel_diff(0.01, [0., .5, 1.], tol=1e-9))
print("dt=0.01 ts float32 [0,.5,1]   :", rel_diff(0.01, [0., .5, 1.], ts_dtype=torch.float32))
# cause: the forward grid is accumulated upwards from ts[0], the backward grid upwards from -ts[i]; they differ by ulps,
# and Brownian increments over intervals that differ by eps differ by O(sqrt(eps)).
t, fwd = 0., []
for _ in range(5): fwd.append((t, t + 0.1)); t = t + 0.1
t, bwd = -0.5, []
for _ in range(5): bwd.append((-(t + 0.1), -t)); t = t + 0.1
bm = torchsde.BrownianInterval(0., 1., size=(1, 1), entropy=7)
for (a, b), (c, d) in zip(fwd, reversed(bwd)):
    print(f"forward step [{a!r}, {b!r}] backward step [{c!r}, {d!r}]  dW difference {(bm(a, b) - bm(c, d)).abs().item():.2e}")
