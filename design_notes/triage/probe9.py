import ast, sys
from fractions import Fraction as Fr
def load(path):
    tree=ast.parse(open(path).read()); env={}
    def ev(n):
        if isinstance(n,ast.Constant): return Fr(n.value)
        if isinstance(n,ast.Tuple): return tuple(ev(e) for e in n.elts)
        if isinstance(n,ast.BinOp):
            a,b=ev(n.left),ev(n.right)
            return {ast.Div:a/b if isinstance(n.op,ast.Div) else None, }.get(type(n.op)) if isinstance(n.op,ast.Div) else (a*b if isinstance(n.op,ast.Mult) else a+b if isinstance(n.op,ast.Add) else a-b)
        if isinstance(n,ast.UnaryOp): return -ev(n.operand)
        raise ValueError(ast.dump(n))
    for st in tree.body:
        if isinstance(st,ast.Assign): env[st.targets[0].id]=ev(st.value)
    return env
def pad(M,n): return [list(r)+[Fr(0)]*(n-len(r)) for r in M]
def mv(M,v): return [sum(a*b for a,b in zip(r,v)) for r in M]
def dot(a,b): return sum(x*y for x,y in zip(a,b))
def sq(v): return [x*x for x in v]
def sri(t):
    n=int(t['STAGES']); e=[Fr(1)]*n
    A0,A1,B0,B1=(pad(t[k],n) for k in ('A0','A1','B0','B1'))
    al,b1,b2,b3,b4=(t[k] for k in ('alpha','beta1','beta2','beta3','beta4'))
    B0e,A0e,B1e,A1e=mv(B0,e),mv(A0,e),mv(B1,e),mv(A1,e)
    c=[dot(al,e)-1,dot(b1,e)-1,dot(b2,e),dot(b3,e),dot(b4,e),
       dot(al,B0e)-1,dot(al,A0e)-Fr(1,2),dot(al,sq(B0e))-Fr(3,2),
       dot(b1,A1e)-1,dot(b2,A1e),dot(b3,A1e)+1,dot(b4,A1e),
       dot(b1,B1e),dot(b2,B1e)-1,dot(b3,B1e),dot(b4,B1e),
       dot(b1,sq(B1e))-1,dot(b2,sq(B1e)),dot(b3,sq(B1e))+1,dot(b4,sq(B1e))-2,
       dot(b1,mv(B1,B1e)),dot(b2,mv(B1,B1e)),dot(b3,mv(B1,B1e)),dot(b4,mv(B1,B1e))-1,
       Fr(1,2)*dot(b1,mv(A1,B0e))+Fr(1,3)*dot(b3,mv(A1,B0e))]
    # c0/c1 row-sum consistency
    c0=[t['C0'][i]-A0e[i] for i in range(n)]; c1=[t['C1'][i]-A1e[i] for i in range(n)]
    return c,c0,c1
def sra(t):
    n=int(t['STAGES']); e=[Fr(1)]*n
    A0,B0=pad(t['A0'],n),pad(t['B0'],n); al,b1,b2=t['alpha'],t['beta1'],t['beta2']; c1=t['C1']
    B0e,A0e=mv(B0,e),mv(A0,e)
    c=[dot(al,e)-1,dot(b1,e)-1,dot(b2,e),dot(al,B0e)-1,dot(al,A0e)-Fr(1,2),dot(al,sq(B0e))-Fr(3,2),dot(b1,c1)-1,dot(b2,c1)+1]
    c0=[t['C0'][i]-A0e[i] for i in range(n)]
    return c,c0
base='/repo/torchsde/_core/methods/tableaus/'
for name in ('srid1','srid2'):
    c,c0,c1=sri(load(base+name+'.py')); print(name,[str(x) for x in c],'c0',[str(x) for x in c0],'c1',[str(x) for x in c1])
for name in ('sra1','sra2','sra3'):
    c,c0=sra(load(base+name+'.py')); print(name,[str(x) for x in c],'c0',[str(x) for x in c0])
