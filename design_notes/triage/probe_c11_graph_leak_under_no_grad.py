"""C11 / R11.7: evaluated under torch.no_grad(), AdjointSDE.g_prod_and_gdg_prod for diagonal noise returns a Milstein term that
requires grad when the diffusion passes the state through unchanged (g = y + c): the cotangent v2 * g is computed under
enable_grad and autograd hands it back as the gradient itself.  Values are right.  Written by the round-6 C11 seeding agent.
exit 1 = a returned block requires grad under no_grad."""
import sys
import torch
from torchsde._core.adjoint_sde import AdjointSDE
from torchsde._core.base_sde import ForwardSDE
torch.set_default_dtype(torch.float64); torch.manual_seed(0)

class Shifted(torch.nn.Module):          # dY = -Y dt + (Y + c) o dW, element-wise (diagonal) noise
    noise_type, sde_type = 'diagonal', 'stratonovich'
    def __init__(self):
        super().__init__(); self.c = torch.nn.Parameter(torch.tensor([0.5, 1.5]))
    def f(self, t, y): return -y
    def g(self, t, y): return y + self.c

class Scaled(Shifted):                   # same, but the state enters through a multiplication
    def g(self, t, y): return 1.0001 * y + self.c

LEAKS = []
B, D = 3, 2
y, a, v1, v2 = (torch.randn(B, D) for _ in range(4))
for sde in (Shifted(), Scaled()):
    params = list(sde.parameters())
    adj = AdjointSDE(ForwardSDE(sde), params, [y.size(), a.size()] + [p.size() for p in params])
    y_aug = torch.cat([y.reshape(-1), a.reshape(-1), torch.zeros(D)]).unsqueeze(0)
    with torch.no_grad():
        g_prod, gdg_prod = adj.g_prod_and_gdg_prod(torch.tensor(-0.3), y_aug, v1, v2)
    leak = g_prod.requires_grad or gdg_prod.requires_grad
    LEAKS.append(leak)
    print(type(sde).__name__, '| grad enabled:', False, '| g_prod.requires_grad =', g_prod.requires_grad,
          '| gdg_prod.requires_grad =', gdg_prod.requires_grad, '| grad_fn =', gdg_prod.grad_fn)

sys.exit(1 if any(LEAKS) else 0)
