"""C04 / R04.2: with tol > 0 the root node covers [round(t0), round(t1)] but its increment was drawn with the variance of
the *unrounded* length t1 - t0.  BrownianInterval(0, 0.14, tol=0.1): the root is [0, 0.1], Var W(0, 0.1) = 0.14.

Run:  PYTHONPATH=<tree> /venv/bin/python probe_c04_root_variance_unrounded.py   (exit 1 = defect present)."""
import sys
import torch
import torchsde

torch.set_default_dtype(torch.float64)
n = 4000
w_root, w_half = [], []
for e in range(n):
    bm = torchsde.BrownianInterval(t0=0., t1=0.14, size=(1,), tol=0.1, entropy=e)
    w_root.append(bm(0., 0.1).item())
w = torch.tensor(w_root)
var = w.var().item()
se = 0.1 * (2 / n) ** 0.5
print(f"Var W(0, 0.1) over {n} entropies = {var:.4f}  (Brownian motion: 0.1000 +- {3 * se:.4f}; unrounded length: 0.14)")
sys.exit(1 if abs(var - 0.1) > 5 * se else 0)
