"""C18 / R18.7 (known finding): with adaptive=True the running log-ratio is a channel of the state the step controller
looks at (compute_error takes the RMS over all channels), so logqp=True changes which steps are accepted and the returned
states differ from those returned without logqp under the same Brownian motion.  With fixed steps they are bit-identical.
Written by the round-6 C18 seeding agent.   exit 1 = states differ."""
import sys
import warnings
import torch
import torchsde

torch.set_default_dtype(torch.float64)


class S(torch.nn.Module):
    noise_type, sde_type = 'general', 'ito'

    def __init__(self, scale):
        super().__init__()
        self.scale = scale
        self.G = torch.tensor([[1., 0.2], [0.1, 0.8], [0.3, -0.5]])

    def g(self, t, y):
        return self.G.expand(y.size(0), -1, -1) * (1 + 0.1 * torch.tanh(y).sum(1))[:, None, None]

    def h(self, t, y):
        return -y

    def f(self, t, y):
        c = torch.tensor([1., -2.]).expand(y.size(0), 2).unsqueeze(-1)
        return self.h(t, y) + self.scale * torch.bmm(self.g(t, y), c).squeeze(-1)


worst = 0.
for adaptive in (False, True):
    for scale in (1., 30.):
        out = []
        for logqp in (False, True):
            bm = torchsde.BrownianInterval(0., 1., size=(2, 2), entropy=7)
            with warnings.catch_warnings():
                warnings.simplefilter('ignore')
                r = torchsde.sdeint(S(scale), torch.ones(2, 3), torch.linspace(0, 1, 5), bm=bm, method='euler', dt=0.05,
                                    adaptive=adaptive, logqp=logqp, rtol=1e-3, atol=1e-3)
            out.append(r[0] if logqp else r)
        d = (out[0] - out[1]).abs().max().item()
        print('adaptive', adaptive, 'scale', scale, 'max |ys_logqp - ys|', d)
        worst = max(worst, d)
sys.exit(1 if worst > 1e-12 else 0)
