"""C16 / R16.9: `names={'drift': 'h'}` is ignored by every solver that reads the combined interface when the user's
class also carries a fused method under its default name (the latent-SDE pattern: posterior f, prior h, g, and f_and_g
for speed).  Euler integrates the old drift, Milstein / SRK the renamed one, no error.

Run:  PYTHONPATH=<tree> /venv/bin/python probe_c16_rename_shadowed_by_fused.py   (exit 1 = defect present)."""
import sys
import torch
import torchsde

torch.set_default_dtype(torch.float64)


class R(torch.nn.Module):
    sde_type = 'ito'
    noise_type = 'diagonal'

    def f(self, t, y):
        return -y

    def h(self, t, y):
        return 5. * torch.ones_like(y)

    def g(self, t, y):
        return 0.1 * torch.ones_like(y)


class RF(R):
    def f_and_g(self, t, y):
        return self.f(t, y), self.g(t, y)


y0 = torch.ones(2, 2)
ts = torch.tensor([0., 0.5])
out = {}
for cls in (R, RF):
    for method in ('euler', 'milstein'):
        bm = torchsde.BrownianInterval(0., .5, size=(2, 2), entropy=1)
        out[cls.__name__, method] = torchsde.sdeint(cls(), y0, ts, method=method, dt=0.05, bm=bm, names={'drift': 'h'})[-1]
        print(cls.__name__, method, out[cls.__name__, method][0].tolist())
bad = (out['RF', 'euler'] - out['R', 'euler']).abs().max().item()
print("euler: class with fused f_and_g vs class without, same names map:", bad)
sys.exit(1 if bad > 1e-12 else 0)
