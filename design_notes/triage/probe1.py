import sys, signal, torch, torchsde, warnings
warnings.simplefilter('ignore')
def alarm(sig, frm): raise TimeoutError
signal.signal(signal.SIGALRM, alarm)
def run(name, fn, t=10):
    signal.alarm(t)
    try:
        r = fn(); print(name, 'OK', r if not torch.is_tensor(r) else r.flatten()[:2])
    except BaseException as e:
        print(name, 'EXC', type(e).__name__, str(e)[:100])
    finally:
        signal.alarm(0)
from torchsde import BrownianInterval as BI
run('cache0_dt', lambda: BI(0.,1.,size=(2,),cache_size=0,dt=0.1)(0.1,0.2))
def f():
    bm=BI(0.,1.,size=(2,),cache_size=0)
    for i in range(150): bm(i*0.001,(i+1)*0.001)
    return 'done'
run('cache0_infer', f)
run('cache1_dt', lambda: BI(0.,1.,size=(2,),cache_size=1,dt=0.01)(0.1,0.2))
# halfway tree rounding
run('halfway_tol0.1', lambda: BI(0.,1.,size=(2,),halfway_tree=True,tol=0.1)(0.0,0.04))
run('halfway_tol1e-3_close', lambda: BI(0.,1.,size=(2,),halfway_tree=True,tol=1e-3)(0.5,0.5004))
run('halfway_tol1e-3_close2', lambda: BI(0.,1.,size=(2,),halfway_tree=True,tol=1e-3)(0.3001,0.3004))
run('tol_close', lambda: BI(0.,1.,size=(2,),tol=1e-3)(0.3001,0.3004))
run('tol_close_H', lambda: BI(0.,1.,size=(2,),tol=1e-3,levy_area_approximation='space-time')(0.3001,0.3004,return_U=True))
run('tree', lambda: torchsde.BrownianTree(0., torch.zeros(2))(0.3, 0.3+1e-8))
