"""Triage (session 4): logqp with diagonal noise and an exactly-zero diffusion entry: stable_division's guard multiplies
epsilon by sign(0) = 0, so the division is by zero: the log-ratio is nan (f = h there) or inf, although
1/2 |g^+ (f - h)|^2 with the pseudo-inverse is finite (0 contribution of that channel).
Run: PYTHONPATH=/repo /venv/bin/python this_file.py"""
import torch, torchsde, warnings
warnings.simplefilter('ignore')
torch.set_default_dtype(torch.float64)
from torchsde._core import misc

print('stable_division(0, 0) =', misc.stable_division(torch.tensor([0.]), torch.tensor([0.])).item(),
      ' stable_division(1, 0) =', misc.stable_division(torch.tensor([1.]), torch.tensor([0.])).item(),
      ' stable_division(1, 1e-9) =', misc.stable_division(torch.tensor([1.]), torch.tensor([1e-9])).item())


class SDE(torch.nn.Module):
    noise_type = 'diagonal'; sde_type = 'ito'
    def f(self, t, y): return torch.stack([-y[:, 0], 0.3 * y[:, 1]], dim=1)
    def h(self, t, y): return torch.stack([-0.5 * y[:, 0], 0.3 * y[:, 1]], dim=1)       # f == h in the noiseless channel
    def g(self, t, y): return torch.stack([0.4 * torch.ones_like(y[:, 0]), torch.zeros_like(y[:, 1])], dim=1)


ys, logqp = torchsde.sdeint(SDE(), torch.ones(2, 2), torch.tensor([0., 0.5, 1.]), dt=0.05, logqp=True)
print('state finite:', bool(torch.isfinite(ys).all()), ' log-ratio:', logqp.tolist())
