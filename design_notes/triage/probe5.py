import torch, torchsde, warnings
warnings.simplefilter('ignore')
torch.set_default_dtype(torch.float64)
from torchsde._brownian import brownian_interval as bi
for mode in ('davie','foster'):
    h=0.7
    B=400000
    bm=torchsde.BrownianInterval(0.,h,size=(B,2),levy_area_approximation=mode,entropy=1)
    W,U,A=bm(0.,h,return_U=True,return_A=True)
    H=U/h-0.5*W
    mean=H.unsqueeze(-1)*W.unsqueeze(-2)-W.unsqueeze(-1)*H.unsqueeze(-2)
    r=(A-mean)[:,0,1]
    print(mode,'resid var',r.var().item(),'h^2/12',h*h/12,'h^2/6',h*h/6)
    if mode=='foster':
        pred=h*h/20+(h/5)*(H[:,0]**2+H[:,1]**2)
        print('  E pred', pred.mean().item(), ' E[r^2/pred]', (r**2/pred).mean().item())
        pred2=h*h/50+(h/5)*(H[:,0]**2+H[:,1]**2)
        print('  code-reading E[r^2/pred2]', (r**2/pred2).mean().item())
    print(' total var A01', A[:,0,1].var().item(), 'h^2/4', h*h/4)
