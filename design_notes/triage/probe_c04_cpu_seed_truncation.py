"""Triage (session 4): torch's CPU generator (mt19937) uses only the low 32 bits of the seed, so the 64-bit node seeds of
commit 81158f6 still collide on CPU: after enough queries two different tree nodes draw the identical noise tensor.
Run: PYTHONPATH=/repo /venv/bin/python this_file.py"""
import collections, warnings
import torch, torchsde
warnings.simplefilter('ignore')
torch.set_num_threads(1)

N = 60000
bm = torchsde.BrownianInterval(0., 1., size=(4,), entropy=7, dt=1. / N)
for i in range(N):
    bm(i / N, (i + 1) / N)
seeds = collections.defaultdict(list)
stack = [bm]
while stack:
    x = stack.pop()
    if x._midway is not None:
        for name in ('_W_seed', '_H_seed', '_left_a_seed', '_right_a_seed'):
            seeds[int(getattr(x, name)) & 0xFFFFFFFF].append((name, float(x._start), float(x._end), int(getattr(x, name))))
        stack.append(x._left_child); stack.append(x._right_child)
n = sum(len(v) for v in seeds.values())
dups = [v for v in seeds.values() if len(v) > 1]
full = len({s[3] for v in seeds.values() for s in v})
print(f'{n} node seeds, {full} distinct as 64-bit words, {len(dups)} pair(s) equal in their low 32 bits')
for v in dups[:3]:
    a, b = v[0], v[1]
    na = torch.randn(4, generator=torch.Generator().manual_seed(a[3]))
    nb = torch.randn(4, generator=torch.Generator().manual_seed(b[3]))
    from torchsde._brownian.brownian_interval import _randn
    la, lb = _randn((4,), torch.float64, 'cpu', a[3]), _randn((4,), torch.float64, 'cpu', b[3])
    print(' ', a, b, 'identical with torch.Generator().manual_seed on CPU:', torch.equal(na, nb),
          '| identical noise from the library (_randn):', torch.equal(la, lb))
