"""Triage (session 4): sdeint_adjoint with method='reversible_heun' gives parameters that are NOT in adjoint_params a
(partial, meaningless) gradient, because init_extra_solver_state(ts[0], y0) = (f(t0, y0), g(t0, y0), y0) is evaluated
outside the autograd Function with autograd recording.  Run: PYTHONPATH=/repo /venv/bin/python this_file.py"""
import torch, torchsde, warnings
torch.set_default_dtype(torch.float64)
warnings.simplefilter('ignore')


class Lin(torch.nn.Module):
    noise_type = 'diagonal'; sde_type = 'stratonovich'

    def __init__(self):
        super().__init__()
        self.mu = torch.nn.Parameter(torch.tensor([-0.3, 0.2, 0.1]))
        self.sigma = torch.nn.Parameter(torch.tensor([0.6, 0.8, 0.5]))

    def f(self, t, y): return self.mu * y
    def g(self, t, y): return self.sigma * y


ts = torch.tensor([0., 1.])
for method in ('midpoint', 'reversible_heun'):
    sde = Lin()
    y0 = torch.tensor([[1.0, 0.5, 2.0], [0.7, 1.5, 1.0]], requires_grad=True)
    bm = torchsde.BrownianInterval(t0=0., t1=1., size=(2, 3), entropy=123)
    ys = torchsde.sdeint_adjoint(sde, y0, ts, bm=bm, method=method, dt=2 ** -6, adjoint_params=(sde.mu,))
    (ys[-1] ** 2).sum().backward()
    print(f'method={method:16s} adjoint_params=(mu,)  sigma.grad = {sde.sigma.grad}')
