# Positive fixture for the expected-zero rules R05.3, R05.4, R05.5 (never imported, never executed; parsed only).
# Each marked line must be flagged on every run of the C05 check.
import torch


def _randn(size, dtype, device, seed):
    return torch.randn(size, dtype=dtype, device=device)           # R05.4: draw without a seeded generator


class _Interval:
    __slots__ = ('_start', '_end', '_parent', '_top', '_midway', '_left_child', '_right_child', '_W_seed',
                 '_last_interval')

    def __init__(self, start, end, parent, top):
        self._start = start
        self._end = end
        self._parent = parent
        self._top = top
        self._midway = None

    def _split_exact(self, midway):
        self._midway = midway
        self._W_seed = 0
        self._left_child = _Interval(self._start, midway, self, self._top)
        self._right_child = _Interval(midway, self._end, self, self._top)

    def _touch(self):
        self._top._last_interval = self                              # makes `_last_interval` a history slot

    def _increment_and_levy_area(self):
        W = self._value()
        Wi = self._value()
        W += Wi                                                      # R05.5: in-place on a possibly cached tensor
        return W, None, None

    def _value(self):
        bias = 0 if self._top._last_interval is self else 1         # R05.3: value depends on a history slot
        return _randn((2,), None, None, self._parent._W_seed) + bias
