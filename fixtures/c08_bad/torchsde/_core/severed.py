# Positive fixture for the expected-zero rules R08.1 / R08.2 (parsed only, never imported or executed).
import torch

from . import misc


class Severed:
    def step(self, t0, t1, y0, extra0):
        dt = t1 - t0
        I_k = self.bm(t0, t1)
        f = self.sde.f(t0, y0).detach()                      # R08.1: drift treated as a constant
        g_prod = self.sde.g_prod(t0, y0.data, I_k)           # R08.1: .data
        scale = float(g_prod.abs().max())                    # R08.1: tensor -> Python number
        with torch.no_grad():                                # R08.1: value computed without a graph
            corr = self.sde.g_prod(t1, y0 + g_prod, I_k)
        y1 = y0 + f * dt + g_prod * scale + corr
        return torch.tensor(y1.tolist()), ()                 # R08.1: re-wrapped value

    def gdg(self, t, y, v):
        with torch.enable_grad():
            y = y if y.requires_grad else y.detach().requires_grad_(True)
            g = self.sde.g(t, y)
            out, = misc.vjp(outputs=g, inputs=y, grad_outputs=g * v, allow_unused=True)     # R08.2: no create_graph
            out2, = misc.vjp(outputs=g, inputs=y, grad_outputs=g * v, create_graph=False)   # R08.2: graph dropped
        return out + out2
