# Positive fixture for the expected-zero rule R20.2 (parsed only, never imported or executed).
import torch


class CrossTalk:
    def step(self, t0, t1, y0, extra0):
        dt = t1 - t0
        I_k = self.bm(t0, t1)
        f, g_prod = self.sde.f_and_g_prod(t0, y0, I_k)
        scale = g_prod.mean()                    # R20.2: reduction over all elements
        centre = y0.mean(dim=0, keepdim=True)    # R20.2: reduction over the batch axis
        total = sum(g_prod)                      # R20.2: builtin sum over a tensor reduces dim 0
        first = y0[0]                            # R20.2: one row broadcast to all
        mixed = g_prod.flatten(0, 1)             # R20.2: batch axis merged
        y1 = y0 + f * dt + g_prod * scale + 0 * (centre + total + first) + 0 * mixed.sum(-1)
        return y1, ()
