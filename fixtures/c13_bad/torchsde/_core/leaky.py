# Positive fixture for the expected-zero rule R13.1 (parsed only, never imported or executed).
_HISTORY = []
_COUNTER = {"steps": 0}


class LeakySolver:
    def __init__(self, sde, bm):
        self.sde = sde
        self.bm = bm
        self._last = None            # fine: constructor

    def step(self, t0, t1, y0, extra0):
        y1 = y0 + self.sde.f(t0, y0) * (t1 - t0)
        self._last = y1              # R13.1: hidden solver state
        _HISTORY.append(t1)          # R13.1: module-level container mutated
        _COUNTER["steps"] = 1        # R13.1: store into module-level dict
        return y1, ()

    def integrate(self, y0, ts, extra0):
        global _TOTAL                # R13.1: global state
        _TOTAL = len(ts)
        return y0, extra0
